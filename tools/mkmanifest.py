#!/usr/bin/env python3
# Regenerates /verif/MANIFEST.json from the table below (kept in one place so that claims and notes stay in step).
import json, subprocess, os
V = '/verif'
props = [json.loads(l) for l in open(f'{V}/properties.jsonl')]
ids = [p['id'] for p in props]

TECH = "contract-based deductive verification: weakest-precondition style VC generation over go/ssa of the real code (govc), contracts in /repo/**/verif_contracts.go, obligations discharged by z3 5.1 / z3 4.8 (cvc5 in the thorough tier)"

claims = json.load(open(f'{V}/tools/claims.json'))

checks = []
na = []
for pid in ids:
    c = claims.get(pid)
    if not c or not c.get('claimed'):
        na.append({"property_id": pid, "reason": (c or {}).get('reason', "no obligations discharged for this property yet; nothing is claimed")})
        continue
    checks.append({
        "property_id": pid,
        "quick_cmd": f"./check {pid} --tier quick",
        "thorough_cmd": f"./check {pid} --tier thorough",
        "evidence_file": f"/verif/evidence/{pid}.json",
        "replay_cmd_template": f"./check {pid} --replay {{path}}",
        "engine": "govc",
        "level_claimed": {"category": "proof", "text": c['text'], "design_ref": c.get('design_ref', 'DESIGN.md §0 (as-built table), §9.3 (status), §6 ' + pid + ' (design)')},
        "level_note": c['note'],
        "technique": TECH,
    })

hooks = subprocess.run(['git', '-C', '/repo', 'log', '--format=%h %s'], capture_output=True, text=True).stdout.strip().split('\n')
hook_commits = [l.split()[0] for l in hooks if l.split(' ', 1)[1].startswith('verif')]
m = {
    "version": 1,
    "setup_cmd": "cd /verif/govc && GOFLAGS=-mod=mod GOPROXY=off GOSUMDB=off GOTOOLCHAIN=local go build -o ../bin/govc .",
    "hooks": {
        "guard": "verif",
        "enable": "contracts are comment-only files <pkg>/verif_contracts.go with '//go:build verif'; govc loads /repo with -tags verif; no executable code is added",
        "baseline_off_cmd": "cd /repo && GOFLAGS= go test -vet=off -count=1 ./... && cd cmd/hranoprovod-cli && GOFLAGS= go test -vet=off -count=1 ./...",
        "source_commits": hook_commits,
        "add_only": True,
    },
    "engines": [{"name": "govc", "path": "/verif/govc", "serves_properties": [c['property_id'] for c in checks],
                 "kind_free_text": "self-written verification-condition generator: go/packages + go/ssa (NaiveForm) of /repo's working tree -> SMT-LIB2 obligations per contract clause / loop invariant / call precondition / safety condition; solvers z3-new (5.1.0), z3 (4.8.12), cvc5 (1.0)"}],
    "checks": checks,
    "not_applicable": na,
    "notes": "Contract-based deductive verification of the real code; see DESIGN.md. Fix commits in /repo start with 'fix:'; known findings in /verif/known_findings.txt.",
}
json.dump(m, open(f'{V}/MANIFEST.json', 'w'), indent=1)
print(len(checks), 'claimed;', len(na), 'not applicable')
