package main

import (
	"fmt"
	"go/constant"
	"go/token"
	"go/types"
	"sort"
	"strings"

	"golang.org/x/tools/go/ssa"
)

// ---------------------------------------------------------------------------
// frames
// ---------------------------------------------------------------------------

func (vc *VC) newFrame(fn *ssa.Function, spec *FuncSpec, parent *Frame) *Frame {
	fr := &Frame{vc: vc, fn: fn, key: vc.P.fnKeys[fn], spec: spec, regs: map[ssa.Value]Val{}, cells: map[*ssa.Alloc]*Cell{},
		byName: map[string][]*Cell{}, escaping: map[*ssa.Alloc]bool{}, names: map[string]Val{}, parent: parent,
		loops: map[*ssa.BasicBlock]*loopInfo{}, counters: map[string]int{}, iters: map[*ssa.Range]*iterState{},
		callOrd: map[string]int{}, bind: map[string]*ssa.Function{}, bindVal: map[string]Val{}}
	fr.analyzeEscapes()
	fr.findLoops()
	fr.computeOrdinals()
	if spec != nil && vc.P.oldNames != nil {
		fr.renamed = vc.P.renameMap(fn)
	}
	return fr
}

// computeOrdinals numbers calls, dynamic calls, map updates and sends in source order
func (fr *Frame) computeOrdinals() {
	fr.ordinal = map[ssa.Instruction]int{}
	type item struct {
		in     ssa.Instruction
		kind   string
		bi, ii int
	}
	var items []item
	for bi, b := range fr.fn.Blocks {
		for ii, in := range b.Instrs {
			switch x := in.(type) {
			case ssa.CallInstruction:
				c := x.Common()
				if _, isB := c.Value.(*ssa.Builtin); isB {
					continue
				}
				kind := ""
				if c.IsInvoke() {
					kind = "call:" + c.Method.Name()
				} else if f := fr.vc.staticFn(fr, c.Value, 0); f != nil || c.StaticCallee() != nil {
					if f == nil {
						f = c.StaticCallee()
					}
					kind = "call:" + f.Name()
				} else {
					kind = "dyncall"
				}
				items = append(items, item{in, kind, bi, ii})
			case *ssa.Store:
				// stores into heap memory (not into a local variable)
				root := x.Addr
				for {
					if fa, ok := root.(*ssa.FieldAddr); ok {
						root = fa.X
						continue
					}
					if ia, ok := root.(*ssa.IndexAddr); ok {
						if _, isSl := under(ia.X.Type()).(*types.Slice); isSl {
							root = nil
							break
						}
						root = ia.X
						continue
					}
					break
				}
				if _, isAlloc := root.(*ssa.Alloc); !isAlloc {
					items = append(items, item{in, "store", bi, ii})
				}
			case *ssa.MapUpdate:
				items = append(items, item{in, "mapupdate", bi, ii})
			case *ssa.Send:
				items = append(items, item{in, "send", bi, ii})
			}
		}
	}
	sort.SliceStable(items, func(i, j int) bool {
		pi, pj := items[i].in.Pos(), items[j].in.Pos()
		if pi != pj && pi.IsValid() && pj.IsValid() {
			return pi < pj
		}
		if items[i].bi != items[j].bi {
			return items[i].bi < items[j].bi
		}
		return items[i].ii < items[j].ii
	})
	cnt := map[string]int{}
	for _, it := range items {
		cnt[it.kind]++
		fr.ordinal[it.in] = cnt[it.kind]
	}
}

func (fr *Frame) count(kind string) int {
	fr.counters[kind]++
	return fr.counters[kind]
}

func (fr *Frame) oblName(kind string) string {
	k := fr.key
	if fr.spec != nil && fr.spec.Variant != "" {
		k += "[" + fr.spec.Variant + "]"
	}
	top := fr
	for top.parent != nil {
		top = top.parent
	}
	if top != fr {
		tk := top.key
		if top.spec != nil && top.spec.Variant != "" {
			tk += "[" + top.spec.Variant + "]"
		}
		return fmt.Sprintf("%s/inl:%s/%s", tk, shortKey(fr.key), kind)
	}
	return k + "/" + kind
}

func shortKey(k string) string {
	if i := strings.LastIndex(k, "."); i >= 0 {
		return k[i+1:]
	}
	return k
}

// analyzeEscapes decides which Allocs can be kept as local cells
func (fr *Frame) analyzeEscapes() {
	for _, b := range fr.fn.Blocks {
		for _, in := range b.Instrs {
			a, ok := in.(*ssa.Alloc)
			if !ok {
				continue
			}
			if !fr.addrOnlyUses(a, 0) {
				fr.escaping[a] = true
			}
		}
	}
}

// addrOnlyUses: the value (an address derived from an Alloc) is only used to load, store-to, or derive field addresses,
// or passed as a pointer argument to a static repo function / known external with a contract.
func (fr *Frame) addrOnlyUses(v ssa.Value, depth int) bool {
	refs := v.Referrers()
	if refs == nil {
		return true
	}
	for _, r := range *refs {
		switch u := r.(type) {
		case *ssa.UnOp:
			if u.Op != token.MUL {
				return false
			}
		case *ssa.Store:
			if u.Val == v {
				return false
			}
		case *ssa.FieldAddr:
			if !fr.addrOnlyUses(u, depth+1) {
				return false
			}
		case *ssa.IndexAddr:
			if u.X != v {
				return false
			}
			if !fr.addrOnlyUses(u, depth+1) {
				return false
			}
		case *ssa.DebugRef:
		case *ssa.Call:
			if u.Call.Value == v {
				return false
			}
			callee := u.Call.StaticCallee()
			if callee == nil {
				return false
			}
			// only callees under contract (which are trusted/checked not to retain the pointer)
			if sp := fr.vc.P.specFor(fr.vc.P.fnKeys[callee], ""); sp == nil || sp.Inline {
				return false
			}
			if len(callee.FreeVars) > 0 {
				return false
			}
			// the callee must not keep the pointer (syntactic check of its body; external callees are trusted)
			for i, a := range u.Call.Args {
				if a == v && retainsParam(callee, i, 0, map[*ssa.Function]bool{}) {
					return false
				}
			}
		default:
			return false
		}
	}
	return true
}

// retainsParam: may the callee store its i-th parameter (a pointer) somewhere that outlives the call, or return it?
// Conservative syntactic analysis of the callee's SSA: the parameter may only be dereferenced, written through,
// used to derive field / element addresses, kept in its own spill slot, or passed on to callees that satisfy the
// same condition.
func retainsParam(fn *ssa.Function, i int, depth int, seen map[*ssa.Function]bool) bool {
	if fn == nil || len(fn.Blocks) == 0 {
		return false // external: assumed contract (listed as trusted)
	}
	if depth > 4 || seen[fn] {
		return true
	}
	seen[fn] = true
	defer delete(seen, fn)
	if i >= len(fn.Params) {
		return true
	}
	aliases := map[ssa.Value]bool{fn.Params[i]: true}
	spills := map[*ssa.Alloc]bool{}
	changed := true
	for changed {
		changed = false
		for _, b := range fn.Blocks {
			for _, in := range b.Instrs {
				switch x := in.(type) {
				case *ssa.Store:
					if aliases[x.Val] {
						if al, ok := x.Addr.(*ssa.Alloc); ok && !al.Heap && !spills[al] {
							spills[al] = true
							changed = true
						}
					}
				case *ssa.UnOp:
					if al, ok := x.X.(*ssa.Alloc); ok && x.Op == token.MUL && spills[al] && !aliases[x] {
						aliases[x] = true
						changed = true
					}
				case *ssa.FieldAddr:
					if aliases[x.X] && !aliases[x] {
						aliases[x] = true
						changed = true
					}
				case *ssa.IndexAddr:
					if aliases[x.X] && !aliases[x] {
						aliases[x] = true
						changed = true
					}
				case *ssa.ChangeType:
					if aliases[x.X] && !aliases[x] {
						aliases[x] = true
						changed = true
					}
				}
			}
		}
	}
	// a spill slot must only be loaded from and stored to
	for al := range spills {
		if refs := al.Referrers(); refs != nil {
			for _, r := range *refs {
				switch u := r.(type) {
				case *ssa.Store:
					if u.Addr != al {
						return true
					}
				case *ssa.UnOp, *ssa.DebugRef:
				default:
					return true
				}
			}
		}
	}
	for a := range aliases {
		refs := a.Referrers()
		if refs == nil {
			continue
		}
		for _, r := range *refs {
			switch u := r.(type) {
			case *ssa.Store:
				if u.Val == a {
					if al, ok := u.Addr.(*ssa.Alloc); !ok || !spills[al] {
						return true
					}
				}
			case *ssa.UnOp:
				if u.Op != token.MUL {
					return true
				}
			case *ssa.FieldAddr, *ssa.IndexAddr, *ssa.DebugRef, *ssa.ChangeType:
			case *ssa.BinOp:
				// comparison with nil / another pointer
			case *ssa.If:
			case ssa.CallInstruction:
				common := u.Common()
				if common.Value == a {
					return true
				}
				callee := common.StaticCallee()
				if callee == nil {
					if _, isB := common.Value.(*ssa.Builtin); isB {
						return true
					}
					return true
				}
				for j, arg := range common.Args {
					if arg == a && retainsParam(callee, j, depth+1, seen) {
						return true
					}
				}
			default:
				return true
			}
		}
	}
	return false
}

// ---------------------------------------------------------------------------
// loops
// ---------------------------------------------------------------------------

func (fr *Frame) findLoops() {
	fn := fr.fn
	if len(fn.Blocks) == 0 {
		return
	}
	heads := map[*ssa.BasicBlock]*loopInfo{}
	for _, b := range fn.Blocks {
		for _, s := range b.Succs {
			if s.Dominates(b) {
				li := heads[s]
				if li == nil {
					li = &loopInfo{head: s, blocks: map[*ssa.BasicBlock]bool{s: true}}
					heads[s] = li
				}
				li.backPreds = append(li.backPreds, b)
				// natural loop
				var stack []*ssa.BasicBlock
				if !li.blocks[b] {
					li.blocks[b] = true
					stack = append(stack, b)
				}
				for len(stack) > 0 {
					x := stack[len(stack)-1]
					stack = stack[:len(stack)-1]
					for _, p := range x.Preds {
						if !li.blocks[p] {
							li.blocks[p] = true
							stack = append(stack, p)
						}
					}
				}
			}
		}
	}
	var list []*loopInfo
	for _, li := range heads {
		list = append(list, li)
	}
	sort.Slice(list, func(i, j int) bool { return list[i].head.Index < list[j].head.Index })
	for i, li := range list {
		li.ordinal = i + 1
		if fr.spec != nil && fr.spec.Loops != nil {
			li.spec = fr.spec.Loops[li.ordinal]
		}
		// range loop recognition
		for _, in := range li.head.Instrs {
			switch x := in.(type) {
			case *ssa.UnOp:
				if a, ok := x.X.(*ssa.Alloc); ok && x.Op == token.MUL && a.Comment == "rangeindex" {
					li.rangeIdx = a
				}
			case *ssa.BinOp:
				if li.rangeIdx != nil && x.Op == token.LSS {
					li.rangeLen = x.Y
					if c, ok := x.Y.(*ssa.Call); ok {
						if bi, ok := c.Call.Value.(*ssa.Builtin); ok && bi.Name() == "len" {
							li.rangeColl = c.Call.Args[0]
						}
					}
				}
			case *ssa.Next:
				if r, ok := x.Iter.(*ssa.Range); ok {
					li.rng = r
				}
			}
		}
		// a hand-written index loop "for i := ...; i < len(x); i++": #i is the index variable, #len / #coll as in a
		// range loop (so a range loop rewritten as an index loop keeps its contract); no automatic bounds invariant
		if li.rangeIdx == nil && li.rng == nil {
			for _, in := range li.head.Instrs {
				if x, ok := in.(*ssa.BinOp); ok && x.Op == token.LSS {
					if ld, ok := x.X.(*ssa.UnOp); ok && ld.Op == token.MUL {
						if a, ok := ld.X.(*ssa.Alloc); ok && a.Comment != "" && a.Comment != "rangeindex" {
							li.idxCell = a
							li.rangeLen = x.Y
							if c, ok := x.Y.(*ssa.Call); ok {
								if bi, ok := c.Call.Value.(*ssa.Builtin); ok && bi.Name() == "len" {
									li.rangeColl = c.Call.Args[0]
								}
							}
						}
					}
				}
			}
		}
		fr.loops[li.head] = li
		fr.loopList = append(fr.loopList, li)
	}
}

func (fr *Frame) isBackEdge(from, to *ssa.BasicBlock) bool {
	li := fr.loops[to]
	if li == nil {
		return false
	}
	for _, b := range li.backPreds {
		if b == from {
			return true
		}
	}
	return false
}

// ---------------------------------------------------------------------------
// body execution
// ---------------------------------------------------------------------------

type edgeIn struct {
	guard string
	st    *State
	from  *ssa.BasicBlock
}

func (vc *VC) execBody(fr *Frame, st0 *State, guard0 string) {
	fn := fr.fn
	// reverse postorder ignoring back edges
	var order []*ssa.BasicBlock
	seen := map[*ssa.BasicBlock]bool{}
	var dfs func(b *ssa.BasicBlock)
	dfs = func(b *ssa.BasicBlock) {
		seen[b] = true
		for _, s := range b.Succs {
			if !seen[s] && !fr.isBackEdge(b, s) {
				dfs(s)
			}
		}
		order = append(order, b)
	}
	dfs(fn.Blocks[0])
	for i, j := 0, len(order)-1; i < j; i, j = i+1, j-1 {
		order[i], order[j] = order[j], order[i]
	}
	if fr.parent == nil {
		vc.anc = map[int]map[int]bool{}
		for _, b := range order {
			s := map[int]bool{b.Index: true}
			for _, p := range b.Preds {
				if fr.isBackEdge(p, b) {
					continue
				}
				for a := range vc.anc[p.Index] {
					s[a] = true
				}
			}
			vc.anc[b.Index] = s
		}
	}
	ins := map[*ssa.BasicBlock][]edgeIn{}
	ins[fn.Blocks[0]] = []edgeIn{{guard0, st0, nil}}
	for _, b := range order {
		in := ins[b]
		if len(in) == 0 {
			continue
		}
		if fr.parent == nil {
			vc.curBlock = b.Index
		}
		st, reach := vc.mergeEdges(fr, b, in)
		if li := fr.loops[b]; li != nil {
			st = vc.loopHead(fr, li, st, reach)
		}
		vc.comment(fmt.Sprintf("block %d (%s) of %s", b.Index, b.Comment, shortKey(fr.key)))
		for _, instr := range b.Instrs {
			vc.execInstr(fr, st, reach, instr, b, ins)
		}
	}
}

// joinTerm defines a join value as a nested ite over the incoming edge guards (an unconditional equality:
// guarded equalities between arrays make the solver split on array extensionality)
func (vc *VC) joinTerm(j string, guards []string, terms []string) {
	t := terms[len(terms)-1]
	for i := len(terms) - 2; i >= 0; i-- {
		t = "(ite " + guards[i] + " " + terms[i] + " " + t + ")"
	}
	vc.assume("(= " + j + " " + t + ")")
}

func (vc *VC) mergeEdges(fr *Frame, b *ssa.BasicBlock, in []edgeIn) (*State, string) {
	if len(in) == 1 {
		return in[0].st.clone(), in[0].guard
	}
	var gs []string
	for _, e := range in {
		gs = append(gs, e.guard)
	}
	reach := vc.define(fmt.Sprintf("reach_b%d", b.Index), "Bool", "(or "+strings.Join(gs, " ")+")")
	st := in[0].st.clone()
	// epoch
	sameEpoch := true
	for _, e := range in[1:] {
		if e.st.epoch != in[0].st.epoch {
			sameEpoch = false
		}
	}
	if !sameEpoch {
		vc.maxEpoch++
		st.epoch = vc.maxEpoch
	}
	// locals
	for c := range st.locals {
		same := true
		live := true
		for _, e := range in {
			t, ok := e.st.locals[c]
			if !ok {
				live = false
				break
			}
			if t != in[0].st.locals[c] {
				same = false
			}
		}
		if !live {
			delete(st.locals, c)
			if st.addrs != nil {
				delete(st.addrs, c)
			}
			continue
		}
		if !same {
			if st.addrs != nil {
				delete(st.addrs, c)
			}
			j := vc.fresh("j_"+c.Name, vc.S.sortOf(c.T))
			var ts []string
			for _, e := range in {
				ts = append(ts, e.st.locals[c])
			}
			vc.joinTerm(j, gs, ts)
			st.locals[c] = j
		}
	}
	// heaps: union of names
	names := map[string]bool{}
	for _, e := range in {
		for n := range e.st.heaps {
			names[n] = true
		}
	}
	for _, n := range sortedKeys(names) {
		same := true
		var terms []string
		for _, e := range in {
			terms = append(terms, vc.heap(e.st, n))
		}
		for _, t := range terms[1:] {
			if t != terms[0] {
				same = false
			}
		}
		if same {
			st.heaps[n] = terms[0]
			continue
		}
		j := vc.fresh("j_"+n, vc.heapSort[n])
		vc.joinTerm(j, gs, terms)
		st.heaps[n] = j
	}
	// ghosts
	gnames := map[string]bool{}
	for _, e := range in {
		for n := range e.st.ghosts {
			gnames[n] = true
		}
	}
	for _, n := range sortedKeys(gnames) {
		same := true
		var terms []string
		for _, e := range in {
			terms = append(terms, vc.ghost(e.st, n))
		}
		for _, t := range terms[1:] {
			if t != terms[0] {
				same = false
			}
		}
		if same {
			st.ghosts[n] = terms[0]
			continue
		}
		g := vc.P.ghosts[n]
		j := vc.fresh("j_g_"+n, vc.S.tySort(vc.tyOfTypeExprL(g.Type, true)))
		vc.joinTerm(j, gs, terms)
		st.ghosts[n] = j
	}
	// alloc
	sameA := true
	for _, e := range in[1:] {
		if e.st.alloc != in[0].st.alloc {
			sameA = false
		}
	}
	if !sameA {
		j := vc.fresh("alloc", "Int")
		var ts []string
		for _, e := range in {
			ts = append(ts, e.st.alloc)
		}
		vc.joinTerm(j, gs, ts)
		st.alloc = j
	}
	// defers must agree
	for _, e := range in[1:] {
		if len(e.st.defers) != len(in[0].st.defers) {
			vc.unsupportedf("%s: deferred calls differ between merging paths", fr.key)
		}
	}
	return st, reach
}

// registers defined on only one path are still fine: every SSA register is defined at most once.

func (vc *VC) envFor(fr *Frame, st *State) *Env {
	top := fr
	e := &Env{vc: vc, fr: fr, st: st, old: top.entry, names: fr.names, hash: map[string]Val{}, loopAt: map[string]*State{}}
	for _, li := range fr.curLoops {
		if li.headState != nil {
			e.loopAt[fmt.Sprintf("loop%d", li.ordinal)] = li.headState
		}
	}
	for _, li := range fr.loopList {
		if li.preState != nil {
			e.loopAt[fmt.Sprintf("pre%d", li.ordinal)] = li.preState
		}
	}
	if fr.callPre != nil {
		e.loopAt["call"] = fr.callPre
	}
	for i, a := range fr.pendingArgs {
		e.hash[fmt.Sprintf("arg%d", i)] = a
	}
	if fr.lastRes.Tup != nil {
		for i, r := range fr.lastRes.Tup {
			e.hash[fmt.Sprintf("ret%d", i)] = r
		}
	} else if fr.lastRes.S != "" || fr.lastRes.A != nil {
		e.hash["ret"] = fr.lastRes
		e.hash["ret0"] = fr.lastRes
	}
	return e
}

// loopHash binds #i, #len, #coll, #it, #ord, #n for a loop, evaluated in state st (at the head)
func (vc *VC) loopHash(fr *Frame, li *loopInfo, st *State, env *Env) {
	// enclosing loops: their body-relative values, also under ordinal-suffixed names (#i1, #coll1, ...)
	for _, outer := range fr.curLoops {
		if outer != li && outer.ordinal != li.ordinal {
			vc.loopHashBody(fr, outer, st, env)
		}
	}
	for _, k := range []string{"i", "idx", "len", "coll", "it", "ord", "n"} {
		delete(env.hash, k)
	}
	defer func() {
		for _, k := range []string{"i", "len", "coll", "it", "ord", "n"} {
			if v, ok := env.hash[k]; ok {
				env.hash[fmt.Sprintf("%s%d", k, li.ordinal)] = v
			}
		}
	}()
	if li.rangeIdx != nil {
		c := fr.cells[li.rangeIdx]
		if c != nil {
			if t, ok := st.locals[c]; ok {
				env.hash["i"] = Val{T: tInt, S: "(+ " + t + " 1)"}
			}
		}
		if li.rangeLen != nil {
			if v, ok := fr.regs[li.rangeLen]; ok {
				env.hash["len"] = v
			}
		}
		if li.rangeColl != nil {
			if v, ok := fr.regs[li.rangeColl]; ok {
				env.hash["coll"] = v
			}
		}
	}
	if li.idxCell != nil {
		if c := fr.cells[li.idxCell]; c != nil {
			if t, ok := st.locals[c]; ok {
				env.hash["i"] = Val{T: tInt, S: t}
			}
		}
		if li.rangeLen != nil {
			if v, ok := fr.regs[li.rangeLen]; ok {
				env.hash["len"] = v
			}
		}
		if li.rangeColl != nil {
			if v, ok := fr.regs[li.rangeColl]; ok {
				env.hash["coll"] = v
			}
		}
	}
	if li.rng != nil {
		if it := fr.iters[li.rng]; it != nil {
			if t, ok := st.locals[it.it]; ok {
				env.hash["it"] = Val{T: tInt, S: t}
			}
			k := goTy(it.mt.Key())
			env.hash["ord"] = Val{S: it.ord, Ty: &Ty{L: "seq", Elem: &k}}
			env.hash["n"] = Val{T: tInt, S: it.n}
		}
	}
}

func clauseProps(c []string, def []string) []string {
	if len(c) > 0 {
		return c
	}
	return def
}

func (fr *Frame) defProps() []string {
	top := fr
	for top.parent != nil {
		top = top.parent
	}
	if top.spec != nil {
		return top.spec.Props
	}
	return nil
}

func (vc *VC) loopHead(fr *Frame, li *loopInfo, st *State, reach string) *State {
	vc.comment(fmt.Sprintf("loop %d head", li.ordinal))
	// pairwise definitions revealed before this loop are not carried into it
	vc.curScope++
	if li.spec != nil && len(li.spec.PreHints) > 0 {
		henv := vc.envFor(fr, st)
		vc.loopHash(fr, li, st, henv)
		vc.runHints(fr, st, reach, li.spec.PreHints, henv, fmt.Sprintf("loop%d-pre", li.ordinal))
	}
	li.preState = st.clone()
	// 1. invariants on entry
	env0 := vc.envFor(fr, st)
	vc.loopHash(fr, li, st, env0)
	invs := vc.loopInvariants(fr, li)
	for i, inv := range invs {
		if inv.Free {
			continue
		}
		name := inv.Name
		if name == "" {
			name = fmt.Sprint(i + 1)
		}
		g := vc.safeTr(fr, func() string { return env0.trBool(inv.E) }, inv.Src)
		vc.oblige(fr.oblName(fmt.Sprintf("inv%d#%s/init", li.ordinal, name)), "inv-init", clauseProps(inv.Props, fr.defProps()), reach, g, inv.Src)
	}
	// 2. havoc loop targets
	n := st.clone()
	cells, heaps, all := fr.loopTargets(li)
	for _, c := range cells {
		if _, ok := n.locals[c]; ok {
			n.locals[c] = vc.fresh("lh_"+c.Name, vc.S.sortOf(c.T))
			if n.addrs != nil {
				delete(n.addrs, c)
			}
			vc.assumeTypeFactsLater(n, c.T, n.locals[c])
		}
	}
	if all {
		vc.havocAll(n)
	} else {
		for _, h := range heaps {
			vc.havocHeap(n, h)
		}
		gset, gall := fr.loopGhosts(li)
		for _, g := range vc.P.ghostOrder {
			gv := vc.P.ghosts[g]
			if gv == nil || gv.Const || !(gall || gset[g]) {
				continue
			}
			vc.ghost(n, g) // materialise first so that the pre-loop value keeps its name
			n.ghosts[g] = vc.fresh("lh_g_"+g, vc.S.tySort(vc.tyOfTypeExprL(gv.Type, true)))
		}
	}
	na := vc.fresh("alloc", "Int")
	vc.assume("(>= " + na + " " + st.alloc + ")")
	n.alloc = na
	vc.flushTypeFacts(n)
	// 3. assume invariants
	li.headState = n.clone()
	fr.curLoops = append(fr.curLoops, li)
	env1 := vc.envFor(fr, n)
	vc.loopHash(fr, li, n, env1)
	for _, inv := range invs {
		g := vc.safeTr(fr, func() string { return env1.trBool(inv.E) }, inv.Src)
		vc.assumeG(reach, g)
	}
	vc.autoFrameAssume(fr, n, reach)
	if fr.parent == nil && fr.spec != nil {
		vc.smoke(fr.oblName(fmt.Sprintf("smoke/loop%d", li.ordinal)), fr.defProps(), reach)
	}
	if li.spec != nil {
		vc.runHints(fr, n, reach, li.spec.Hints, env1, fmt.Sprintf("loop%d", li.ordinal))
		if li.spec.Decreases != nil {
			li.decTerm = vc.safeTr(fr, func() string { s, _ := env1.tr(li.spec.Decreases); return s }, "decreases")
			li.decTerm = vc.define("dec", "Int", li.decTerm)
		}
	}
	return n
}

// loopInvariants: user invariants plus the automatic range-index bounds
func (vc *VC) loopInvariants(fr *Frame, li *loopInfo) []*Clause {
	var out []*Clause
	if li.rangeIdx != nil && li.rangeLen != nil {
		out = append(out, &Clause{Name: "range", E: &Binary{"&&", &Binary{"<=", &IntLit{"0", 0}, &HashIdent{"i", 0}, 0}, &Binary{"<=", &HashIdent{"i", 0}, &HashIdent{"len", 0}, 0}, 0}, Src: "0 <= #i && #i <= #len", Props: []string{"C08"}})
	}
	if li.rng != nil {
		out = append(out, &Clause{Name: "iter", E: &Binary{"&&", &Binary{"<=", &IntLit{"0", 0}, &HashIdent{"it", 0}, 0}, &Binary{"<=", &HashIdent{"it", 0}, &HashIdent{"n", 0}, 0}, 0}, Src: "0 <= #it && #it <= #n", Props: []string{"C08"}})
	}
	if li.spec != nil {
		out = append(out, li.spec.Invariants...)
	}
	return out
}

func (vc *VC) backEdge(fr *Frame, li *loopInfo, st *State, guard string) {
	if li.spec != nil && len(li.spec.EndHints) > 0 {
		henv := vc.envFor(fr, st)
		vc.loopHashBody(fr, li, st, henv)
		if li.idxCell != nil {
			// at the back edge of an index loop the variable has already been incremented: #i stays the index of the
			// element just processed, as in a range loop
			if v, ok := henv.hash["i"]; ok {
				henv.hash["i"] = Val{T: tInt, S: "(- " + v.S + " 1)"}
				henv.hash[fmt.Sprintf("i%d", li.ordinal)] = henv.hash["i"]
			}
		}
		vc.runHints(fr, st, guard, li.spec.EndHints, henv, fmt.Sprintf("loop%d-end", li.ordinal))
	}
	env := vc.envFor(fr, st)
	vc.loopHash(fr, li, st, env)
	for i, inv := range vc.loopInvariants(fr, li) {
		if inv.Free {
			continue
		}
		name := inv.Name
		if name == "" {
			name = fmt.Sprint(i + 1)
		}
		if inv.Name == "range" || inv.Name == "iter" {
			name = inv.Name
		}
		g := vc.safeTr(fr, func() string { return env.trBool(inv.E) }, inv.Src)
		vc.oblige(fr.oblName(fmt.Sprintf("inv%d#%s/step", li.ordinal, name)), "inv-step", clauseProps(inv.Props, fr.defProps()), guard, g, inv.Src)
	}
	if li.spec != nil && li.spec.Decreases != nil && li.decTerm != "" {
		d := vc.safeTr(fr, func() string { s, _ := env.tr(li.spec.Decreases); return s }, "decreases")
		vc.oblige(fr.oblName(fmt.Sprintf("term/loop%d", li.ordinal)), "term", []string{"C08"}, guard, "(and (<= 0 "+li.decTerm+") (< "+d+" "+li.decTerm+"))", "decreases "+li.spec.Decreases.String())
	} else if li.rangeIdx == nil && li.rng == nil {
		if !fr.scannerLoop(li) {
			vc.notes = append(vc.notes, fmt.Sprintf("%s: loop %d has no decreases clause (termination not proved)", fr.key, li.ordinal))
		}
	}
}

func (fr *Frame) scannerLoop(li *loopInfo) bool {
	for _, in := range li.head.Instrs {
		if c, ok := in.(*ssa.Call); ok {
			if f := c.Call.StaticCallee(); f != nil && f.Name() == "Scan" {
				return true
			}
		}
	}
	return false
}

// loopTargets computes the local cells and heaps that may be modified inside a loop
func (fr *Frame) loopTargets(li *loopInfo) (cells []*Cell, heaps []string, all bool) {
	vc := fr.vc
	cset := map[*Cell]bool{}
	hset := map[string]bool{}
	var rootCell func(v ssa.Value) *Cell
	rootCell = func(v ssa.Value) *Cell {
		switch x := v.(type) {
		case *ssa.Alloc:
			return fr.cells[x]
		case *ssa.FieldAddr:
			return rootCell(x.X)
		case *ssa.IndexAddr:
			return rootCell(x.X)
		}
		return nil
	}
	addHeapOfAddr := func(v ssa.Value) {
		// store through a non-local address: which heap?
		switch x := v.(type) {
		case *ssa.IndexAddr:
			if sl, ok := under(x.X.Type()).(*types.Slice); ok {
				hset[vc.arrHeapName(sl.Elem())] = true
				return
			}
		}
		// walk up FieldAddr chain to the base pointer
		cur := v
		for {
			switch x := cur.(type) {
			case *ssa.FieldAddr:
				cur = x.X
				continue
			case *ssa.IndexAddr:
				if _, ok := under(x.X.Type()).(*types.Slice); ok {
					sl := under(x.X.Type()).(*types.Slice)
					hset[vc.arrHeapName(sl.Elem())] = true
					return
				}
				cur = x.X
				continue
			}
			break
		}
		if pt, ok := under(cur.Type()).(*types.Pointer); ok {
			hset[vc.cellHeapName(pt.Elem())] = true
		}
	}
	var blocks []*ssa.BasicBlock
	for b := range li.blocks {
		blocks = append(blocks, b)
	}
	sort.Slice(blocks, func(i, j int) bool { return blocks[i].Index < blocks[j].Index })
	for _, b := range blocks {
		for _, in := range b.Instrs {
			switch x := in.(type) {
			case *ssa.Store:
				if c := rootCell(x.Addr); c != nil && !fr.escaping[c.Alloc] {
					cset[c] = true
				} else {
					addHeapOfAddr(x.Addr)
				}
			case *ssa.Alloc:
				if fr.escaping[x] {
					hset[vc.cellHeapName(x.Type().(*types.Pointer).Elem())] = true
					if at, ok := under(x.Type().(*types.Pointer).Elem()).(*types.Array); ok {
						hset[vc.arrHeapName(at.Elem())] = true
					}
				}
			case *ssa.MapUpdate:
				if m, ok := under(x.Map.Type()).(*types.Map); ok {
					hset[vc.mapHeapName(m)] = true
				}
			case *ssa.MakeMap:
				hset[vc.mapHeapName(under(x.Type()).(*types.Map))] = true
			case *ssa.MakeSlice:
				hset[vc.arrHeapName(under(x.Type()).(*types.Slice).Elem())] = true
			case *ssa.MakeInterface:
				if !isRefLike(x.X.Type()) {
					hset[vc.cellHeapName(x.X.Type())] = true
				}
			case *ssa.Next:
				if r, ok := x.Iter.(*ssa.Range); ok {
					if it := fr.iters[r]; it != nil {
						cset[it.it] = true
					}
				}
			case ssa.CallInstruction:
				common := x.Common()
				// address arguments: the cells may be modified
				for _, a := range common.Args {
					if c := rootCell(a); c != nil && !fr.escaping[c.Alloc] {
						cset[c] = true
					}
				}
				hs, a := vc.callHeaps(fr, x)
				if a {
					all = true
				}
				for _, h := range hs {
					hset[h] = true
				}
			case *ssa.Send:
			}
		}
	}
	for c := range cset {
		cells = append(cells, c)
	}
	sort.Slice(cells, func(i, j int) bool { return cells[i].ID < cells[j].ID })
	heaps = sortedKeys(hset)
	return
}

func isRefLike(t types.Type) bool {
	switch under(t).(type) {
	case *types.Pointer, *types.Map, *types.Chan, *types.Signature:
		return true
	}
	return false
}

// ---------------------------------------------------------------------------
// instructions
// ---------------------------------------------------------------------------

func (vc *VC) operand(fr *Frame, v ssa.Value) Val {
	switch x := v.(type) {
	case *ssa.Const:
		return vc.constOperand(x)
	case *ssa.Function:
		id := vc.S.funcID(vc.P.fnKeys[x])
		return Val{T: x.Type(), S: fmt.Sprintf("(- %d)", id), Fn: x}
	case *ssa.Global:
		// address of a package-level variable: a fixed heap cell
		pt := x.Type().(*types.Pointer)
		ref := "glob_" + mangle(x.Pkg.Pkg.Name()+"_"+x.Name())
		decl := fmt.Sprintf("(declare-const %s Int)", ref)
		found := false
		for _, l := range vc.specDecls {
			if l == decl {
				found = true
			}
		}
		if !found {
			vc.specDecls = append(vc.specDecls, decl, fmt.Sprintf("(assert (> %s 0))", ref))
		}
		return Val{T: x.Type(), S: ref, A: &Addr{Kind: aHeap, Ref: ref, BaseT: pt.Elem()}}
	case *ssa.Builtin:
		return Val{T: x.Type(), S: "0"}
	}
	if r, ok := fr.regs[v]; ok {
		return r
	}
	vc.unsupportedf("%s: use of undefined register %s (%T)", fr.key, v.Name(), v)
	r := Val{T: v.Type(), S: vc.fresh("undef_"+v.Name(), vc.S.sortOf(v.Type()))}
	fr.regs[v] = r
	return r
}

func (vc *VC) constOperand(c *ssa.Const) Val {
	t := c.Type()
	if c.Value == nil {
		return Val{T: t, S: vc.S.zeroOf(t)}
	}
	return vc.constVal(c.Value, t)
}

func (vc *VC) newCell(fr *Frame, a *ssa.Alloc) *Cell {
	vc.cellID++
	name := a.Comment
	if name == "" {
		name = a.Name()
	}
	c := &Cell{Name: name, T: a.Type().(*types.Pointer).Elem(), ID: vc.cellID, Alloc: a}
	fr.cells[a] = c
	fr.byName[name] = append(fr.byName[name], c)
	return c
}

func (vc *VC) allocRef(st *State, prefix string) string {
	r := vc.define(prefix, "Int", st.alloc)
	st.alloc = vc.define("alloc", "Int", "(+ "+r+" 1)")
	return r
}

func (vc *VC) safety(fr *Frame, kind string, guard, goal, src string) {
	top := fr
	for top.parent != nil {
		top = top.parent
	}
	if top.spec != nil && top.spec.NoSafety {
		vc.assumeG(guard, goal)
		return
	}
	n := fr.count("safe/" + kind)
	vc.oblige(fr.oblName(fmt.Sprintf("safe/%s#%d", kind, n)), "safety", []string{"C08"}, guard, goal, src)
}

func posOf(fr *Frame, in ssa.Instruction) string {
	p := fr.fn.Prog.Fset.Position(in.Pos())
	if !p.IsValid() {
		return ""
	}
	f := p.Filename
	if i := strings.LastIndex(f, "/"); i >= 0 {
		f = f[i+1:]
	}
	return fmt.Sprintf("%s:%d", f, p.Line)
}

func (vc *VC) nilCheck(fr *Frame, guard string, pv Val, in ssa.Instruction) {
	if pv.A != nil {
		if pv.A.Kind != aHeap {
			return
		}
		// known allocations need no check; interior addresses were checked when they were formed
		if pv.A.Fresh || len(pv.A.Path) > 0 {
			return
		}
	}
	r := vc.valTerm(pv)
	vc.safety(fr, "nil", guard, "(not (= "+r+" 0))", "nil dereference at "+posOf(fr, in)+": "+in.String())
}

func (vc *VC) execInstr(fr *Frame, st *State, reach string, instr ssa.Instruction, b *ssa.BasicBlock, ins map[*ssa.BasicBlock][]edgeIn) {
	defer func() {
		if r := recover(); r != nil {
			if se, ok := r.(specErr); ok {
				vc.unsupportedf("%s: %s (at %s)", fr.key, se.msg, instr.String())
				if v, ok := instr.(ssa.Value); ok {
					if _, has := fr.regs[v]; !has {
						fr.regs[v] = Val{T: v.Type(), S: vc.fresh("err_"+v.Name(), vc.S.sortOf(v.Type()))}
					}
				}
				return
			}
			panic(r)
		}
	}()
	switch x := instr.(type) {
	case *ssa.DebugRef:
	case *ssa.Alloc:
		et := x.Type().(*types.Pointer).Elem()
		if !fr.escaping[x] {
			c := vc.newCell(fr, x)
			st.locals[c] = vc.S.zeroOf(et)
			fr.regs[x] = Val{T: x.Type(), A: &Addr{Kind: aLocal, Cell: c, BaseT: et}}
		} else {
			c := vc.newCell(fr, x)
			_ = c
			ref := vc.allocRef(st, "new_"+mangle(c.Name))
			hn := vc.cellHeapName(et)
			vc.setHeap(st, hn, "(store "+vc.heap(st, hn)+" "+ref+" "+vc.S.zeroOf(et)+")")
			fr.regs[x] = Val{T: x.Type(), S: ref, A: &Addr{Kind: aHeap, Ref: ref, BaseT: et, Fresh: true}}
		}
	case *ssa.Store:
		pv := vc.operand(fr, x.Addr)
		v := vc.operand(fr, x.Val)
		if pv.A != nil && pv.A.Kind == aLocal && len(pv.A.Path) == 0 {
			// a local variable that holds an interior pointer (g := &o.GlobalConfig): keep the address symbolically
			if v.S == "" && v.A != nil && (v.A.Kind != aHeap || len(v.A.Path) > 0) {
				if st.addrs == nil {
					st.addrs = map[*Cell]*Addr{}
				}
				st.addrs[pv.A.Cell] = v.A
				st.locals[pv.A.Cell] = vc.fresh("iptr_"+pv.A.Cell.Name, "Int")
				return
			}
			if st.addrs != nil {
				delete(st.addrs, pv.A.Cell)
			}
		}
		vc.nilCheck(fr, reach, pv, x)
		vc.frameCheck(fr, st, reach, vc.addrOf(pv), x)
		vc.store(st, pv, vc.valTerm(v))
		if n, ok := fr.ordinal[x]; ok {
			vc.ghostPoint(fr, st, reach, "after", "store", n, "")
		}
		// remember statically known function values stored in local cells
	case *ssa.UnOp:
		vc.execUnOp(fr, st, reach, x)
	case *ssa.BinOp:
		vc.execBinOp(fr, st, reach, x)
	case *ssa.FieldAddr:
		pv := vc.operand(fr, x.X)
		vc.nilCheck(fr, reach, pv, x)
		a := vc.addrOf(pv)
		pt := under(x.X.Type()).(*types.Pointer)
		na := a.withStep(pathStep{Field: x.Field, T: pt.Elem()})
		fr.regs[x] = Val{T: x.Type(), A: na}
	case *ssa.Field:
		sv := vc.operand(fr, x.X)
		fr.regs[x] = Val{T: x.Type(), S: vc.S.fieldSel(x.X.Type(), x.Field, vc.valTerm(sv))}
	case *ssa.IndexAddr:
		xv := vc.operand(fr, x.X)
		iv := vc.valTerm(vc.operand(fr, x.Index))
		switch u := under(x.X.Type()).(type) {
		case *types.Slice:
			s := vc.valTerm(xv)
			vc.safety(fr, "idx", reach, "(and (<= 0 "+iv+") (< "+iv+" (s_len "+s+")))", "index out of range at "+posOf(fr, x)+": "+x.String())
			fr.regs[x] = Val{T: x.Type(), A: &Addr{Kind: aElem, Ref: "(s_arr " + s + ")", Idx: iv, BaseT: u.Elem()}}
		case *types.Pointer:
			at := under(u.Elem()).(*types.Array)
			vc.nilCheck(fr, reach, xv, x)
			if _, isConst := x.Index.(*ssa.Const); !isConst {
				vc.safety(fr, "idx", reach, fmt.Sprintf("(and (<= 0 %s) (< %s %d))", iv, iv, at.Len()), "array index out of range at "+posOf(fr, x))
			}
			a := vc.addrOf(xv)
			fr.regs[x] = Val{T: x.Type(), A: a.withStep(pathStep{Field: -1, Idx: iv, T: u.Elem()})}
		default:
			vc.unsupportedf("%s: IndexAddr on %s", fr.key, x.X.Type())
		}
	case *ssa.Index:
		xv := vc.operand(fr, x.X)
		iv := vc.valTerm(vc.operand(fr, x.Index))
		switch u := under(x.X.Type()).(type) {
		case *types.Basic: // string
			s := vc.valTerm(xv)
			vc.safety(fr, "idx", reach, "(and (<= 0 "+iv+") (< "+iv+" (slen "+s+")))", "string index out of range at "+posOf(fr, x)+": "+x.String())
			fr.regs[x] = Val{T: x.Type(), S: "(sat " + s + " " + iv + ")"}
		case *types.Array:
			fr.regs[x] = Val{T: x.Type(), S: "(select " + vc.valTerm(xv) + " " + iv + ")"}
			_ = u
		default:
			vc.unsupportedf("%s: Index on %s", fr.key, x.X.Type())
		}
	case *ssa.Lookup:
		vc.execLookup(fr, st, reach, x)
	case *ssa.Slice:
		vc.execSlice(fr, st, reach, x)
	case *ssa.MakeSlice:
		sl := under(x.Type()).(*types.Slice)
		n := vc.valTerm(vc.operand(fr, x.Len))
		c := vc.valTerm(vc.operand(fr, x.Cap))
		vc.safety(fr, "makeslice", reach, "(and (<= 0 "+n+") (<= "+n+" "+c+"))", "makeslice: len out of range at "+posOf(fr, x))
		ref := vc.allocRef(st, "mkslice")
		hn := vc.arrHeapName(sl.Elem())
		vc.setHeap(st, hn, "(store "+vc.heap(st, hn)+" "+ref+" ((as const (Array Int "+vc.S.sortOf(sl.Elem())+")) "+vc.S.zeroOf(sl.Elem())+"))")
		fr.regs[x] = Val{T: x.Type(), S: vc.define(x.Name(), "Slice", "(mk_slice "+ref+" "+n+" "+c+")")}
	case *ssa.MakeMap:
		m := under(x.Type()).(*types.Map)
		ref := vc.allocRef(st, "mkmap")
		hn := vc.mapHeapName(m)
		ms := vc.S.mapSortGo(m)
		ks, vs := vc.S.sortOf(m.Key()), vc.S.sortOf(m.Elem())
		empty := fmt.Sprintf("(mk_%s ((as const (Array %s Bool)) false) ((as const (Array %s %s)) %s) 0)", ms, ks, ks, vs, vc.S.zeroOf(m.Elem()))
		vc.setHeap(st, hn, "(store "+vc.heap(st, hn)+" "+ref+" "+empty+")")
		fr.regs[x] = Val{T: x.Type(), S: ref}
	case *ssa.MakeChan:
		ref := vc.allocRef(st, "mkchan")
		// the buffer size is a fact about the channel (chancap(c) in contracts): the order in which a consumer sees
		// values sent on DIFFERENT channels is the send order only when the channels are unbuffered
		vc.useChanCap()
		vc.assume("(= (chan_cap " + ref + ") " + vc.valTerm(vc.operand(fr, x.Size)) + ")")
		fr.regs[x] = Val{T: x.Type(), S: ref}
	case *ssa.MakeClosure:
		fn := x.Fn.(*ssa.Function)
		ref := vc.allocRef(st, "closure")
		vc.useCloFn()
		// (guarded: closures created on different branches may receive the same reference)
		vc.assumeG(reach, fmt.Sprintf("(= (clo_fn %s) %d)", ref, vc.S.funcID(vc.P.fnKeys[fn])))
		for i, bnd := range x.Bindings {
			bv := vc.operand(fr, bnd)
			vc.useCloEnv(i)
			vc.assumeG(reach, fmt.Sprintf("(= (clo_env_%d %s) %s)", i, ref, vc.valTerm(bv)))
		}
		fr.regs[x] = Val{T: x.Type(), S: ref, Fn: fn, Clo: x, CloFrame: fr}
		vc.checkCaptured(fr, st, reach, x, fn)
	case *ssa.MakeInterface:
		xv := vc.operand(fr, x.X)
		tid := vc.S.typeID(x.X.Type())
		var payload string
		if isRefLike(x.X.Type()) {
			payload = vc.valTerm(xv)
		} else {
			payload = vc.allocRef(st, "box")
			hn := vc.cellHeapName(x.X.Type())
			vc.setHeap(st, hn, "(store "+vc.heap(st, hn)+" "+payload+" "+vc.valTerm(xv)+")")
		}
		fr.regs[x] = Val{T: x.Type(), S: fmt.Sprintf("(mk_iface %d %s)", tid, payload)}
	case *ssa.ChangeInterface:
		fr.regs[x] = Val{T: x.Type(), S: vc.valTerm(vc.operand(fr, x.X))}
	case *ssa.ChangeType:
		v := vc.operand(fr, x.X)
		nv := v
		nv.T = x.Type()
		if st1, _ := structOf(x.X.Type()); st1 != nil && vc.S.sortOf(x.X.Type()) != vc.S.sortOf(x.Type()) {
			// conversion between distinct named struct types with identical underlying types
			var fs []string
			for i := 0; i < st1.NumFields(); i++ {
				fs = append(fs, vc.S.fieldSel(x.X.Type(), i, vc.valTerm(v)))
			}
			nv = Val{T: x.Type(), S: vc.S.mkStruct(x.Type(), fs)}
		}
		if v.A != nil {
			// pointer conversion between types with identical underlying types
			if pt, ok := under(x.Type()).(*types.Pointer); ok && len(v.A.Path) == 0 {
				a := *v.A
				if a.Kind == aHeap && typeKey(a.BaseT) != typeKey(pt.Elem()) {
					vc.unsupportedf("%s: pointer type conversion %s", fr.key, x)
				}
				nv.A = &a
			}
		}
		fr.regs[x] = nv
	case *ssa.Convert:
		vc.execConvert(fr, st, x)
	case *ssa.MapUpdate:
		vc.execMapUpdate(fr, st, reach, x)
	case *ssa.Range:
		vc.execRange(fr, st, reach, x)
	case *ssa.Next:
		vc.execNext(fr, st, reach, x)
	case *ssa.Extract:
		tv := vc.operand(fr, x.Tuple)
		if x.Index < len(tv.Tup) {
			fr.regs[x] = tv.Tup[x.Index]
		} else {
			vc.unsupportedf("%s: extract from non-tuple %s", fr.key, x)
		}
	case *ssa.Phi:
		// value depends on the predecessor edge
		j := vc.fresh("phi_"+x.Name(), vc.S.sortOf(x.Type()))
		for i, p := range b.Preds {
			for _, e := range ins[b] {
				if e.from == p {
					vc.assumeG(e.guard, "(= "+j+" "+vc.valTerm(vc.operand(fr, x.Edges[i]))+")")
				}
			}
		}
		fr.regs[x] = Val{T: x.Type(), S: j}
	case *ssa.TypeAssert:
		xv := vc.valTerm(vc.operand(fr, x.X))
		var ok string
		if _, isIface := under(x.AssertedType).(*types.Interface); isIface {
			ok = vc.fresh("ta_ok", "Bool")
		} else {
			ok = fmt.Sprintf("(= (i_typ %s) %d)", xv, vc.S.typeID(x.AssertedType))
		}
		var res Val
		if _, isIface := under(x.AssertedType).(*types.Interface); isIface {
			res = Val{T: x.AssertedType, S: xv}
		} else if isRefLike(x.AssertedType) {
			res = Val{T: x.AssertedType, S: "(i_val " + xv + ")"}
		} else {
			hn := vc.cellHeapName(x.AssertedType)
			res = Val{T: x.AssertedType, S: "(select " + vc.heap(st, hn) + " (i_val " + xv + "))"}
		}
		if x.CommaOk {
			fr.regs[x] = Val{T: x.Type(), Tup: []Val{res, {T: tBool, S: ok}}}
		} else {
			vc.safety(fr, "typeassert", reach, ok, "type assertion may fail at "+posOf(fr, x))
			fr.regs[x] = res
		}
	case *ssa.Panic:
		vc.safety(fr, "panic", reach, "false", "explicit panic reachable at "+posOf(fr, x))
	case *ssa.Send:
		vc.execSend(fr, st, reach, x)
	case *ssa.Go:
		vc.unsupportedf("%s: go statement", fr.key)
	case *ssa.Select:
		vc.unsupportedf("%s: select statement", fr.key)
	case *ssa.Defer:
		var args []Val
		for _, a := range x.Call.Args {
			args = append(args, vc.operand(fr, a))
		}
		fv := Val{}
		if !x.Call.IsInvoke() {
			if _, isB := x.Call.Value.(*ssa.Builtin); !isB {
				fv = vc.operand(fr, x.Call.Value)
			}
		} else {
			fv = vc.operand(fr, x.Call.Value)
		}
		if len(fr.curLoops) > 0 && fr.loopContains(b) {
			// defer inside a loop: only harmless closers are tolerated
			if f := x.Call.StaticCallee(); f != nil && f.Name() == "Close" {
				vc.notes = append(vc.notes, fr.key+": deferred Close() inside a loop is not modelled (no effect on verified state)")
				break
			}
			vc.unsupportedf("%s: defer inside a loop", fr.key)
			break
		}
		st.defers = append(st.defers, deferred{call: x, args: args, fnv: fv, fr: fr})
	case *ssa.RunDefers:
		var mine, rest []deferred
		for _, d := range st.defers {
			if d.fr == fr {
				mine = append(mine, d)
			} else {
				rest = append(rest, d)
			}
		}
		st.defers = rest
		for i := len(mine) - 1; i >= 0; i-- {
			d := mine[i]
			vc.execCall(fr, st, reach, d.call, d.call.Common(), d.args, &d.fnv)
		}
	case *ssa.Call:
		res := vc.execCall(fr, st, reach, x, x.Common(), nil, nil)
		fr.regs[x] = res
	case *ssa.If:
		c := vc.valTerm(vc.operand(fr, x.Cond))
		vc.addEdge(fr, st, b, b.Succs[0], "(and "+reach+" "+c+")", ins)
		vc.addEdge(fr, st, b, b.Succs[1], "(and "+reach+" (not "+c+"))", ins)
	case *ssa.Jump:
		vc.addEdge(fr, st, b, b.Succs[0], reach, ins)
	case *ssa.Return:
		var vals []Val
		for _, r := range x.Results {
			vals = append(vals, vc.operand(fr, r))
		}
		vc.execReturn(fr, st, reach, vals)
	default:
		vc.unsupportedf("%s: unsupported instruction %T", fr.key, instr)
	}
}

func (fr *Frame) loopContains(b *ssa.BasicBlock) bool {
	for _, li := range fr.loopList {
		if li.blocks[b] {
			return true
		}
	}
	return false
}

func (vc *VC) addEdge(fr *Frame, st *State, from, to *ssa.BasicBlock, guard string, ins map[*ssa.BasicBlock][]edgeIn) {
	g := vc.define(fmt.Sprintf("e_%d_%d", from.Index, to.Index), "Bool", guard)
	if fr.isBackEdge(from, to) {
		li := fr.loops[to]
		vc.backEdge(fr, li, st.clone(), g)
		return
	}
	// leaving loops: pop curLoops lazily (curLoops only used for at(loopK))
	ins[to] = append(ins[to], edgeIn{g, st.clone(), from})
}

func (vc *VC) execUnOp(fr *Frame, st *State, reach string, x *ssa.UnOp) {
	switch x.Op {
	case token.MUL:
		pv := vc.operand(fr, x.X)
		if pv.A != nil && pv.A.Kind == aLocal && len(pv.A.Path) == 0 && st.addrs != nil {
			if ia, ok := st.addrs[pv.A.Cell]; ok {
				fr.regs[x] = Val{T: x.Type(), A: ia}
				return
			}
		}
		vc.nilCheck(fr, reach, pv, x)
		v := vc.load(st, pv, fr, reach)
		a := vc.addrOf(pv)
		name := x.Name()
		if a.Kind == aLocal && len(a.Path) == 0 {
			// plain local read: no new name needed
			fr.regs[x] = Val{T: x.Type(), S: v.S}
			return
		}
		t := vc.define(name, vc.S.sortOf(x.Type()), v.S)
		if a.Kind != aLocal {
			vc.assumeTypeFacts(st, reach, x.Type(), t)
		}
		fr.regs[x] = Val{T: x.Type(), S: t}
	case token.NOT:
		fr.regs[x] = Val{T: x.Type(), S: "(not " + vc.valTerm(vc.operand(fr, x.X)) + ")"}
	case token.SUB:
		fr.regs[x] = Val{T: x.Type(), S: "(- " + vc.valTerm(vc.operand(fr, x.X)) + ")"}
	case token.ARROW:
		vc.unsupportedf("%s: channel receive", fr.key)
		fr.regs[x] = Val{T: x.Type(), S: vc.fresh("recv", vc.S.sortOf(x.Type()))}
	default:
		vc.unsupportedf("%s: unary op %s", fr.key, x.Op)
		fr.regs[x] = Val{T: x.Type(), S: vc.fresh("unop", vc.S.sortOf(x.Type()))}
	}
}

func (vc *VC) execBinOp(fr *Frame, st *State, reach string, x *ssa.BinOp) {
	a, b := vc.operand(fr, x.X), vc.operand(fr, x.Y)
	as, bs := vc.valTerm(a), vc.valTerm(b)
	t := goTy(x.X.Type())
	var s string
	switch x.Op {
	case token.ADD:
		if isStr(t) {
			vc.S.useStr("sconcat")
			s = "(sconcat " + as + " " + bs + ")"
		} else {
			s = "(+ " + as + " " + bs + ")"
		}
	case token.SUB:
		s = "(- " + as + " " + bs + ")"
	case token.MUL:
		s = "(* " + as + " " + bs + ")"
	case token.QUO:
		if isReal(t) {
			s = "(/ " + as + " " + bs + ")"
		} else {
			vc.safety(fr, "div", reach, "(not (= "+bs+" 0))", "integer division by zero at "+posOf(fr, x))
			// Go truncates toward zero
			s = "(ite (>= " + as + " 0) (div " + as + " " + bs + ") (- (div (- " + as + ") " + bs + ")))"
		}
	case token.REM:
		vc.safety(fr, "div", reach, "(not (= "+bs+" 0))", "integer division by zero at "+posOf(fr, x))
		s = "(ite (>= " + as + " 0) (mod " + as + " " + bs + ") (- (mod (- " + as + ") " + bs + ")))"
	case token.EQL, token.NEQ:
		s = vc.eqTerm(x.X.Type(), a, b, x.X, x.Y)
		if x.Op == token.NEQ {
			s = "(not " + s + ")"
		}
	case token.LSS, token.LEQ, token.GTR, token.GEQ:
		op := map[token.Token]string{token.LSS: "<", token.LEQ: "<=", token.GTR: ">", token.GEQ: ">="}[x.Op]
		if isStr(t) {
			vc.S.useStr("slt")
			switch x.Op {
			case token.LSS:
				s = "(slt " + as + " " + bs + ")"
			case token.GTR:
				s = "(slt " + bs + " " + as + ")"
			case token.LEQ:
				s = "(not (slt " + bs + " " + as + "))"
			case token.GEQ:
				s = "(not (slt " + as + " " + bs + "))"
			}
		} else {
			s = "(" + op + " " + as + " " + bs + ")"
		}
	case token.LAND, token.LOR:
		s = "(" + map[token.Token]string{token.LAND: "and", token.LOR: "or"}[x.Op] + " " + as + " " + bs + ")"
	default:
		vc.unsupportedf("%s: binary op %s", fr.key, x.Op)
		s = vc.fresh("binop", vc.S.sortOf(x.Type()))
	}
	if (x.Op == token.ADD || x.Op == token.SUB) && isInt(t) && len(s) < 80 {
		// small integer expressions stay inline so that terms such as "index + 1" are syntactically the same
		// wherever they are built (loop head, loop body, ghost blocks)
		fr.regs[x] = Val{T: x.Type(), S: s}
		return
	}
	fr.regs[x] = Val{T: x.Type(), S: vc.define(x.Name(), vc.S.sortOf(x.Type()), s)}
}

func (vc *VC) eqTerm(t types.Type, a, b Val, xa, xb ssa.Value) string {
	as, bs := vc.valTerm(a), vc.valTerm(b)
	switch under(t).(type) {
	case *types.Interface:
		if c, ok := xb.(*ssa.Const); ok && c.Value == nil {
			return "(= (i_typ " + as + ") 0)"
		}
		if c, ok := xa.(*ssa.Const); ok && c.Value == nil {
			return "(= (i_typ " + bs + ") 0)"
		}
		return "(= " + as + " " + bs + ")"
	case *types.Slice:
		if c, ok := xb.(*ssa.Const); ok && c.Value == nil {
			return "(= (s_arr " + as + ") 0)"
		}
		return "(= (s_arr " + bs + ") 0)"
	}
	return "(= " + as + " " + bs + ")"
}

func (vc *VC) execConvert(fr *Frame, st *State, x *ssa.Convert) {
	v := vc.operand(fr, x.X)
	from, to := goTy(x.X.Type()), goTy(x.Type())
	s := vc.valTerm(v)
	switch {
	case isInt(from) && isInt(to):
		fr.regs[x] = Val{T: x.Type(), S: s}
		if b, ok := under(x.Type()).(*types.Basic); ok && b.Kind() != types.Int && b.Kind() != types.Int64 {
			if fb, ok := under(x.X.Type()).(*types.Basic); ok && fb.Kind() != b.Kind() {
				// narrowing conversions are not modelled precisely
				if _, isConst := x.X.(*ssa.Const); !isConst {
					r := vc.fresh("conv", "Int")
					fr.regs[x] = Val{T: x.Type(), S: r}
					vc.notes = append(vc.notes, fmt.Sprintf("%s: integer conversion %s -> %s treated as unknown value", fr.key, x.X.Type(), x.Type()))
				}
			}
		}
	case isInt(from) && isReal(to):
		fr.regs[x] = Val{T: x.Type(), S: "(to_real " + s + ")"}
	case isReal(from) && isInt(to):
		// truncation toward zero
		fr.regs[x] = Val{T: x.Type(), S: vc.define(x.Name(), "Int", "(ite (>= "+s+" 0.0) (to_int "+s+") (- (to_int (- "+s+"))))")}
	case isReal(from) && isReal(to), isStr(from) && isStr(to):
		fr.regs[x] = Val{T: x.Type(), S: s}
	default:
		r := vc.fresh("conv", vc.S.sortOf(x.Type()))
		fr.regs[x] = Val{T: x.Type(), S: r}
		vc.assumeTypeFacts(st, "", x.Type(), r)
		vc.notes = append(vc.notes, fmt.Sprintf("%s: conversion %s -> %s treated as unknown value", fr.key, x.X.Type(), x.Type()))
	}
}

func (vc *VC) execLookup(fr *Frame, st *State, reach string, x *ssa.Lookup) {
	xv := vc.operand(fr, x.X)
	iv := vc.valTerm(vc.operand(fr, x.Index))
	switch u := under(x.X.Type()).(type) {
	case *types.Map:
		ms := vc.S.mapSortGo(u)
		m := vc.valTerm(xv)
		rec := "(select " + vc.heap(st, vc.mapHeapName(u)) + " " + m + ")"
		// a nil map reads as empty
		in := vc.define(x.Name()+"_ok", "Bool", fmt.Sprintf("(and (not (= %s 0)) (select (%s__dom %s) %s))", m, ms, rec, iv))
		val := vc.define(x.Name()+"_v", vc.S.sortOf(u.Elem()), fmt.Sprintf("(ite %s (select (%s__val %s) %s) %s)", in, ms, rec, iv, vc.S.zeroOf(u.Elem())))
		vc.assumeTypeFacts(st, reach, u.Elem(), val)
		if x.CommaOk {
			fr.regs[x] = Val{T: x.Type(), Tup: []Val{{T: u.Elem(), S: val}, {T: tBool, S: in}}}
		} else {
			fr.regs[x] = Val{T: u.Elem(), S: val}
		}
	case *types.Basic:
		s := vc.valTerm(xv)
		vc.safety(fr, "idx", reach, "(and (<= 0 "+iv+") (< "+iv+" (slen "+s+")))", "string index out of range at "+posOf(fr, x)+": "+x.String())
		fr.regs[x] = Val{T: x.Type(), S: "(sat " + s + " " + iv + ")"}
	default:
		vc.unsupportedf("%s: lookup on %s", fr.key, x.X.Type())
	}
}

func (vc *VC) execSlice(fr *Frame, st *State, reach string, x *ssa.Slice) {
	xv := vc.operand(fr, x.X)
	switch u := under(x.X.Type()).(type) {
	case *types.Basic: // string
		s := vc.valTerm(xv)
		lo, hi := "0", "(slen "+s+")"
		if x.Low != nil {
			lo = vc.valTerm(vc.operand(fr, x.Low))
		}
		if x.High != nil {
			hi = vc.valTerm(vc.operand(fr, x.High))
		}
		vc.safety(fr, "slice", reach, "(and (<= 0 "+lo+") (<= "+lo+" "+hi+") (<= "+hi+" (slen "+s+")))", "slice bounds out of range at "+posOf(fr, x)+": "+x.String())
		vc.S.useStr("ssub")
		r := vc.define(x.Name(), "Str", "(ssub "+s+" "+lo+" "+hi+")")
		vc.ssubFacts(r, s, lo, hi)
		fr.regs[x] = Val{T: x.Type(), S: r}
	case *types.Pointer:
		at, ok := under(u.Elem()).(*types.Array)
		hiOK := x.High == nil
		hiLen := int64(0)
		if ok {
			hiLen = at.Len()
		}
		if c, isC := x.High.(*ssa.Const); isC && ok && c.Int64() <= at.Len() {
			hiOK = true
			hiLen = c.Int64()
		}
		if !ok || x.Low != nil || !hiOK {
			vc.unsupportedf("%s: slice of %s", fr.key, x.X.Type())
			fr.regs[x] = Val{T: x.Type(), S: vc.fresh("slice", "Slice")}
			return
		}
		// t[:] of a freshly allocated array (variadic argument pack, composite literal)
		a := vc.addrOf(xv)
		if a.Kind != aHeap || len(a.Path) != 0 {
			vc.unsupportedf("%s: slice of non-heap array", fr.key)
			fr.regs[x] = Val{T: x.Type(), S: vc.fresh("slice", "Slice")}
			return
		}
		// copy the array cell contents into the array heap under a fresh array object
		ref := vc.allocRef(st, "arr")
		hn := vc.arrHeapName(at.Elem())
		contents := vc.readBase(st, a)
		vc.setHeap(st, hn, "(store "+vc.heap(st, hn)+" "+ref+" "+contents+")")
		fr.regs[x] = Val{T: x.Type(), S: vc.define(x.Name(), "Slice", fmt.Sprintf("(mk_slice %s %d %d)", ref, hiLen, at.Len()))}
		// NOTE: later writes through the array pointer are not reflected in the slice; the SSA builder
		// always completes the stores before slicing for composite literals and variadic packs.
	case *types.Slice:
		s := vc.valTerm(xv)
		lo, hi := "0", "(s_len "+s+")"
		if x.Low != nil {
			lo = vc.valTerm(vc.operand(fr, x.Low))
		}
		if x.High != nil {
			hi = vc.valTerm(vc.operand(fr, x.High))
		}
		vc.safety(fr, "slice", reach, "(and (<= 0 "+lo+") (<= "+lo+" "+hi+") (<= "+hi+" (s_cap "+s+")))", "slice bounds out of range at "+posOf(fr, x))
		if lo != "0" {
			vc.unsupportedf("%s: re-slicing with non-zero offset", fr.key)
		}
		fr.regs[x] = Val{T: x.Type(), S: vc.define(x.Name(), "Slice", "(mk_slice (s_arr "+s+") "+hi+" (s_cap "+s+"))")}
	default:
		vc.unsupportedf("%s: slice of %s", fr.key, x.X.Type())
	}
}

func (vc *VC) execMapUpdate(fr *Frame, st *State, reach string, x *ssa.MapUpdate) {
	u := under(x.Map.Type()).(*types.Map)
	m := vc.valTerm(vc.operand(fr, x.Map))
	k := vc.valTerm(vc.operand(fr, x.Key))
	v := vc.valTerm(vc.operand(fr, x.Value))
	vc.safety(fr, "nilmap", reach, "(not (= "+m+" 0))", "assignment to entry in nil map at "+posOf(fr, x))
	vc.frameCheck(fr, st, reach, &Addr{Kind: aHeap, Ref: m, BaseT: u, IsMap: true}, x)
	ms := vc.S.mapSortGo(u)
	hn := vc.mapHeapName(u)
	h := vc.heap(st, hn)
	rec := "(select " + h + " " + m + ")"
	nrec := fmt.Sprintf("(mk_%s (store (%s__dom %s) %s true) (store (%s__val %s) %s %s) (ite (select (%s__dom %s) %s) (%s__card %s) (+ (%s__card %s) 1)))", ms, ms, rec, k, ms, rec, k, v, ms, rec, k, ms, rec, ms, rec)
	vc.setHeap(st, hn, "(store "+h+" "+m+" "+nrec+")")
	vc.ghostPoint(fr, st, reach, "after", "mapupdate", fr.ordinal[x], "")
}

func (vc *VC) execRange(fr *Frame, st *State, reach string, x *ssa.Range) {
	u, ok := under(x.X.Type()).(*types.Map)
	if !ok {
		vc.unsupportedf("%s: range over %s", fr.key, x.X.Type())
		return
	}
	m := vc.valTerm(vc.operand(fr, x.X))
	ms := vc.S.mapSortGo(u)
	ks := vc.S.sortOf(u.Key())
	rec := vc.define("rng_rec", ms, "(select "+vc.heap(st, vc.mapHeapName(u))+" "+m+")")
	it := &iterState{m: m, mt: u}
	it.ord = vc.fresh("ord", "(Array Int "+ks+")")
	it.n = vc.fresh("n", "Int")
	vc.nfresh++
	it.pos = fmt.Sprintf("pos!%d", vc.nfresh)
	vc.emit(fmt.Sprintf("(declare-fun %s (%s) Int)", it.pos, ks))
	it.dom0 = vc.define("dom0", "(Array "+ks+" Bool)", fmt.Sprintf("(ite (= %s 0) ((as const (Array %s Bool)) false) (%s__dom %s))", m, ks, ms, rec))
	vc.assume(fmt.Sprintf("(= %s (ite (= %s 0) 0 (%s__card %s)))", it.n, m, ms, rec))
	vc.assume("(>= " + it.n + " 0)")
	// ord enumerates dom0 without repetition
	vc.assume(fmt.Sprintf("(forall ((j Int)) (! (=> (and (<= 0 j) (< j %s)) (and (select %s (select %s j)) (= (%s (select %s j)) j))) :pattern ((select %s j))))", it.n, it.dom0, it.ord, it.pos, it.ord, it.ord))
	vc.assume(fmt.Sprintf("(forall ((k %s)) (! (=> (select %s k) (and (<= 0 (%s k)) (< (%s k) %s) (= (select %s (%s k)) k))) :pattern ((%s k)) :pattern ((select %s k))))", ks, it.dom0, it.pos, it.pos, it.n, it.ord, it.pos, it.pos, it.dom0))
	vc.cellID++
	it.it = &Cell{Name: "iter_pos", T: tInt, ID: vc.cellID}
	st.locals[it.it] = "0"
	fr.iters[x] = it
	fr.regs[x] = Val{T: x.Type(), S: "0"}
}

func (vc *VC) execNext(fr *Frame, st *State, reach string, x *ssa.Next) {
	r, ok := x.Iter.(*ssa.Range)
	it := fr.iters[r]
	if !ok || it == nil {
		vc.unsupportedf("%s: next over unsupported iterator", fr.key)
		fr.regs[x] = Val{T: x.Type(), Tup: []Val{{T: tBool, S: vc.fresh("ok", "Bool")}, {T: tInt, S: "0"}, {T: tInt, S: "0"}}}
		return
	}
	u := it.mt
	ms := vc.S.mapSortGo(u)
	pos := st.locals[it.it]
	okT := vc.define("next_ok", "Bool", "(< "+pos+" "+it.n+")")
	k := vc.define("next_k", vc.S.sortOf(u.Key()), "(select "+it.ord+" "+pos+")")
	rec := "(select " + vc.heap(st, vc.mapHeapName(u)) + " " + it.m + ")"
	// the key set must not have changed since Range
	vc.safety(fr, "mapiter", reach, fmt.Sprintf("(=> (not (= %s 0)) (= (%s__dom %s) %s))", it.m, ms, rec, it.dom0), "map key set changed during iteration (not modelled) at "+posOf(fr, x))
	v := vc.define("next_v", vc.S.sortOf(u.Elem()), fmt.Sprintf("(select (%s__val %s) %s)", ms, rec, k))
	vc.assumeTypeFacts(st, reach, u.Elem(), v)
	st.locals[it.it] = vc.define("iter_pos", "Int", "(ite "+okT+" (+ "+pos+" 1) "+pos+")")
	fr.regs[x] = Val{T: x.Type(), Tup: []Val{{T: tBool, S: okT}, {T: u.Key(), S: k}, {T: u.Elem(), S: v}}}
}

func (vc *VC) execSend(fr *Frame, st *State, reach string, x *ssa.Send) {
	// modelled as an append to the ghost trace sendTrace (if declared): (chan, value)
	n := fr.ordinal[x]
	vc.ghostPoint(fr, st, reach, "before", "send", n, "")
	if _, ok := vc.P.ghosts["sendLen"]; ok {
		ch := vc.valTerm(vc.operand(fr, x.Chan))
		v := vc.operand(fr, x.X)
		var payload string
		switch under(x.X.Type()).(type) {
		case *types.Interface:
			payload = "(i_val " + vc.valTerm(v) + ")"
		case *types.Basic:
			payload = "0"
		default:
			payload = vc.valTerm(v)
		}
		ln := vc.ghost(st, "sendLen")
		st.ghosts["sendChan"] = vc.define("sendChan", "(Array Int Int)", "(store "+vc.ghost(st, "sendChan")+" "+ln+" "+ch+")")
		st.ghosts["sendVal"] = vc.define("sendVal", "(Array Int Int)", "(store "+vc.ghost(st, "sendVal")+" "+ln+" "+payload+")")
		st.ghosts["sendLen"] = vc.define("sendLen", "Int", "(+ "+ln+" 1)")
	}
	vc.ghostPoint(fr, st, reach, "after", "send", n, "")
}

var _ = constant.MakeBool

// ssubFacts: ground instances of the substring axioms for one substring term
func (vc *VC) ssubFacts(r, s, lo, hi string) {
	ok := "(and (<= 0 " + lo + ") (<= " + lo + " " + hi + ") (<= " + hi + " (slen " + s + ")))"
	vc.assume("(=> " + ok + " (= (slen " + r + ") (- " + hi + " " + lo + ")))")
	vc.assume("(=> (and " + ok + " (< " + lo + " " + hi + ")) (and (= (sat " + r + " 0) (sat " + s + " " + lo + ")) (= (sat " + r + " (- (- " + hi + " " + lo + ") 1)) (sat " + s + " (- " + hi + " 1)))))")
	vc.assume("(=> (and (= " + lo + " 0) (= " + hi + " (slen " + s + "))) (= " + r + " " + s + "))")
}

// checkCaptured: facts a closure relies on about its (immutable) captured variables are established where it is created
func (vc *VC) checkCaptured(fr *Frame, st *State, reach string, mc *ssa.MakeClosure, fn *ssa.Function) {
	key := vc.P.fnKeys[fn]
	for _, spec := range vc.P.specs[key] {
		if spec.Variant != "" {
			continue
		}
		for i, c := range spec.Captured {
			c := c
			// immutability of the captured variables mentioned
			ok := true
			walkExpr(c.E, func(x Expr) {
				if id, is := x.(*Ident); is {
					for bi, fv := range fn.FreeVars {
						if fv.Name() == id.Name && bi < len(mc.Bindings) {
							if al, isA := mc.Bindings[bi].(*ssa.Alloc); isA {
								if !vc.immutableAfter(al) {
									ok = false
								}
							}
						}
					}
				}
			})
			if !ok {
				vc.specErrors = append(vc.specErrors, fmt.Sprintf("%s: captured clause of %s mentions a variable that is assigned more than once", fr.key, key))
				continue
			}
			env := vc.envFor(fr, st)
			selfV := fr.regs[mc]
			env = env.push("self", selfV)
			// captured(f, v) inside the clause may refer to closures held in captured variables of the new closure
			g := vc.safeTr(fr, func() string { return env.trBool(c.E) }, c.Src)
			if c.Free {
				vc.assumeG(reach, g)
				vc.trusted["definitional clause of closure "+key+": "+c.Src] = true
				continue
			}
			name := c.Name
			if name == "" {
				name = fmt.Sprint(i + 1)
			}
			vc.oblige(fr.oblName(fmt.Sprintf("captured@%s/%s", shortKey(key), name)), "captured", clauseProps(c.Props, append([]string{"C08"}, spec.Props...)), reach, g, "fact about captured variables required by "+key+": "+c.Src)
		}
	}
}

// immutableAfter: the variable is stored exactly once in its function and never through a closure
func (vc *VC) immutableAfter(al *ssa.Alloc) bool {
	n := 0
	for _, b := range al.Parent().Blocks {
		for _, in := range b.Instrs {
			if s, ok := in.(*ssa.Store); ok && s.Addr == al {
				n++
			}
		}
	}
	var visit func(f *ssa.Function) bool
	visit = func(f *ssa.Function) bool {
		for _, an := range f.AnonFuncs {
			for _, b := range an.Blocks {
				for _, in := range b.Instrs {
					if s, ok := in.(*ssa.Store); ok {
						if fv, ok := s.Addr.(*ssa.FreeVar); ok && fv.Name() == al.Comment {
							return false
						}
					}
				}
			}
			if !visit(an) {
				return false
			}
		}
		return true
	}
	return n <= 1 && visit(al.Parent())
}

// loopGhosts: the ghost variables a loop may change: those set by ghost hints of the function, those listed as
// ghost(...) in the modifies clause of a callee inside the loop, the send trace for Send instructions;
// a call without contract inside the loop may change all of them
func (fr *Frame) loopGhosts(li *loopInfo) (map[string]bool, bool) {
	vc := fr.vc
	out := map[string]bool{}
	all := false
	top := fr.topFrame()
	if top.spec != nil {
		addHints := func(hs []*Hint) {
			for _, h := range hs {
				if h.Kind == "set" || h.Kind == "havoc" {
					out[h.Name] = true
				}
			}
		}
		for _, gp := range top.spec.Ghosts {
			addHints(gp.Hints)
		}
		for _, ls := range top.spec.Loops {
			addHints(ls.Hints)
			addHints(ls.EndHints)
			addHints(ls.PreHints)
		}
	}
	addSpec := func(s *FuncSpec) {
		for _, m := range s.Modifies {
			if c, ok := m.(*Call); ok && c.Fun == "ghost" {
				for _, a := range c.Args {
					if id, ok := a.(*Ident); ok {
						out[id.Name] = true
					}
				}
			}
		}
	}
	for b := range li.blocks {
		for _, in := range b.Instrs {
			switch x := in.(type) {
			case *ssa.Send:
				out["sendLen"], out["sendChan"], out["sendVal"] = true, true, true
			case ssa.CallInstruction:
				common := x.Common()
				if _, isB := common.Value.(*ssa.Builtin); isB {
					continue
				}
				if common.IsInvoke() {
					if ms := vc.P.methods[typeKey(common.Value.Type())+"."+common.Method.Name()]; ms != nil {
						addSpec(ms.Spec)
						continue
					}
					impls := vc.implsOf(common.Value.Type(), common.Method.Name())
					if len(impls) == 0 {
						all = true
					}
					for _, im := range impls {
						if im.spec == nil {
							all = true
						} else {
							addSpec(im.spec)
						}
					}
					continue
				}
				callee := common.StaticCallee()
				if callee == nil {
					callee = vc.staticFn(fr, common.Value, 0)
				}
				if callee == nil {
					// dynamic call: type contract
					tcName := ""
					if nt, ok := types.Unalias(common.Value.Type()).(*types.Named); ok {
						tcName = shortPkg(nt.Obj().Pkg()) + "." + nt.Obj().Name()
					}
					if top.spec != nil && top.spec.DynCalls != nil {
						if v, ok := top.spec.DynCalls[fr.ordinal[in]]; ok {
							tcName = v
						}
					}
					if tc := vc.P.typeCons[tcName]; tc != nil {
						addSpec(tc.Spec)
					} else {
						all = true
					}
					continue
				}
				key := vc.P.fnKeys[callee]
				found := false
				for _, s := range vc.P.specs[key] {
					addSpec(s)
					found = true
				}
				if !found {
					if callee.Blocks != nil && vc.P.repoPkgs[pkgOf(callee)] && vc.canInline(fr, callee) {
						// inlined bodies: conservatively look one level down
						for _, b2 := range callee.Blocks {
							for _, in2 := range b2.Instrs {
								if c2, ok := in2.(ssa.CallInstruction); ok {
									if f2 := c2.Common().StaticCallee(); f2 != nil {
										ok2 := false
										for _, s := range vc.P.specs[vc.P.fnKeys[f2]] {
											addSpec(s)
											ok2 = true
										}
										if !ok2 {
											if _, isB := c2.Common().Value.(*ssa.Builtin); !isB && !(f2.Blocks != nil && vc.canInline(fr, f2)) {
												all = true
											}
										}
									} else if _, isB := c2.Common().Value.(*ssa.Builtin); !isB {
										all = true
									}
								}
							}
						}
					} else {
						all = true
					}
				}
			}
		}
	}
	return out, all
}
