package main

import (
	"bytes"
	"context"
	"encoding/json"
	"os"
	"os/exec"
	"path/filepath"
	"strings"
	"time"
)

// A replay driver is a Go test injected into a package of /repo with -overlay (nothing is written to /repo).
// /verif/replays/drivers/<prop>/driver.json: {"dir": "<module dir relative to repo>", "pkg": "./resolver", "file": "resolver/zz_replay_test.go", "src": "c01_test.go", "run": "TestReplayC01"}
// The test prints lines "REPLAY-FAIL: <input and observed/expected>" for every failing input.
type driverCfg struct {
	Dir  string `json:"dir"`
	Pkg  string `json:"pkg"`
	File string `json:"file"`
	Src  string `json:"src"`
	Run  string `json:"run"`
	// Obligations: if non-empty, only failed obligations whose name contains one of these are replayed with this driver
	Match []string `json:"match"`
}

func runReplayDriver(verif, repo, prop string, o *Obligation) (any, bool) {
	ddir := filepath.Join(verif, "replays", "drivers", prop)
	b, err := os.ReadFile(filepath.Join(ddir, "driver.json"))
	if err != nil {
		return nil, false
	}
	var cfgs []driverCfg
	if err := json.Unmarshal(b, &cfgs); err != nil {
		return nil, false
	}
	for _, c := range cfgs {
		if len(c.Match) > 0 {
			ok := false
			for _, m := range c.Match {
				if strings.Contains(o.Name, m) {
					ok = true
				}
			}
			if !ok {
				continue
			}
		}
		out, fails := runDriver(repo, ddir, c, o.Name)
		if len(fails) > 0 {
			if len(fails) > 5 {
				fails = fails[:5]
			}
			return map[string]any{"driver": c.Src, "failing_inputs": fails, "how": "go test -overlay (in-package test against the real code)", "output_tail": tail(out, 1500)}, true
		}
	}
	return nil, false
}

func tail(s string, n int) string {
	if len(s) > n {
		return s[len(s)-n:]
	}
	return s
}

func runDriver(repo, ddir string, c driverCfg, obligation string) (string, []string) {
	tmp, err := os.MkdirTemp("", "govc-replay-")
	if err != nil {
		return "", nil
	}
	defer os.RemoveAll(tmp)
	ov := map[string]any{"Replace": map[string]string{filepath.Join(repo, c.Dir, c.File): filepath.Join(ddir, c.Src)}}
	ob, _ := json.Marshal(ov)
	ovf := filepath.Join(tmp, "ov.json")
	os.WriteFile(ovf, ob, 0o644)
	ctx, cancel := context.WithTimeout(context.Background(), 180*time.Second)
	defer cancel()
	cmd := exec.CommandContext(ctx, "go", "test", "-overlay", ovf, "-vet=off", "-count=1", "-timeout", "120s", "-run", c.Run, c.Pkg)
	cmd.Dir = filepath.Join(repo, c.Dir)
	env := []string{}
	for _, e := range os.Environ() {
		if strings.HasPrefix(e, "GOFLAGS=") {
			continue
		}
		env = append(env, e)
	}
	env = append(env, "GOFLAGS=", "GOPROXY=off", "GOSUMDB=off", "GOTOOLCHAIN=local", "VERIF_OBLIGATION="+obligation, "GOCACHE="+filepath.Join(tmp, "gocache"))
	// reuse the user's build cache when available (faster); fall back to a private one
	if gc := os.Getenv("GOCACHE"); gc != "" {
		env[len(env)-1] = "GOCACHE=" + gc
	} else if home, err := os.UserCacheDir(); err == nil {
		env[len(env)-1] = "GOCACHE=" + filepath.Join(home, "go-build")
	}
	cmd.Env = env
	var buf bytes.Buffer
	cmd.Stdout = &buf
	cmd.Stderr = &buf
	_ = cmd.Run()
	out := buf.String()
	var fails []string
	for _, ln := range strings.Split(out, "\n") {
		if i := strings.Index(ln, "REPLAY-FAIL:"); i >= 0 {
			fails = append(fails, strings.TrimSpace(ln[i+len("REPLAY-FAIL:"):]))
		}
	}
	return out, fails
}
