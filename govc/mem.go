package main

import (
	"fmt"
	"go/types"
	"strings"
)

// ---------------------------------------------------------------------------
// addresses: load / store
// ---------------------------------------------------------------------------

func (vc *VC) addrOf(pv Val) *Addr {
	if pv.A != nil {
		return pv.A
	}
	pt, ok := under(pv.T).(*types.Pointer)
	if !ok {
		specFail("addrOf non-pointer %v", pv.T)
	}
	return &Addr{Kind: aHeap, Ref: pv.S, BaseT: pt.Elem()}
}

func (vc *VC) addrType(a *Addr) types.Type {
	t := a.BaseT
	for _, s := range a.Path {
		if s.Field >= 0 {
			st, _ := structOf(t)
			t = st.Field(s.Field).Type()
		} else {
			t = under(t).(*types.Array).Elem()
		}
	}
	return t
}

func (vc *VC) readBase(st *State, a *Addr) string {
	switch a.Kind {
	case aLocal:
		t, ok := st.locals[a.Cell]
		if !ok {
			// dead cell (e.g. dropped at a join): treat as unknown
			t = vc.fresh("dead_"+a.Cell.Name, vc.S.sortOf(a.Cell.T))
			st.locals[a.Cell] = t
		}
		return t
	case aHeap:
		h := vc.heap(st, vc.cellHeapName(a.BaseT))
		return "(select " + h + " " + a.Ref + ")"
	case aElem:
		h := vc.heap(st, vc.arrHeapName(a.BaseT))
		return "(select (select " + h + " " + a.Ref + ") " + a.Idx + ")"
	}
	panic("readBase")
}

func (vc *VC) writeBase(st *State, a *Addr, term string) {
	switch a.Kind {
	case aLocal:
		if vc.S.sortOf(a.Cell.T) == "Int" && len(term) < 80 && !strings.Contains(term, "select") {
			st.locals[a.Cell] = term
		} else {
			st.locals[a.Cell] = vc.define(a.Cell.Name, vc.S.sortOf(a.Cell.T), term)
		}
	case aHeap:
		hn := vc.cellHeapName(a.BaseT)
		h := vc.heap(st, hn)
		vc.setHeap(st, hn, "(store "+h+" "+a.Ref+" "+term+")")
	case aElem:
		hn := vc.arrHeapName(a.BaseT)
		h := vc.heap(st, hn)
		vc.setHeap(st, hn, "(store "+h+" "+a.Ref+" (store (select "+h+" "+a.Ref+") "+a.Idx+" "+term+"))")
	}
}

func (vc *VC) applyPath(t types.Type, term string, path []pathStep) (string, types.Type) {
	for _, s := range path {
		if s.Field >= 0 {
			term = vc.S.fieldSel(t, s.Field, term)
			st, _ := structOf(t)
			t = st.Field(s.Field).Type()
		} else {
			term = "(select " + term + " " + s.Idx + ")"
			t = under(t).(*types.Array).Elem()
		}
	}
	return term, t
}

func (vc *VC) updatePath(t types.Type, term string, path []pathStep, v string) string {
	if len(path) == 0 {
		return v
	}
	s := path[0]
	if s.Field >= 0 {
		st, _ := structOf(t)
		inner := vc.updatePath(st.Field(s.Field).Type(), vc.S.fieldSel(t, s.Field, term), path[1:], v)
		return vc.S.fieldUpd(t, s.Field, term, inner)
	}
	et := under(t).(*types.Array).Elem()
	inner := vc.updatePath(et, "(select "+term+" "+s.Idx+")", path[1:], v)
	return "(store " + term + " " + s.Idx + " " + inner + ")"
}

// load reads the value a pointer refers to. fr/guard are only used for naming intermediate values.
func (vc *VC) load(st *State, pv Val, fr *Frame, guard string) Val {
	a := vc.addrOf(pv)
	base := vc.readBase(st, a)
	term, t := vc.applyPath(a.BaseT, base, a.Path)
	return Val{T: t, S: term}
}

func (vc *VC) store(st *State, pv Val, v string) {
	a := vc.addrOf(pv)
	if len(a.Path) == 0 {
		vc.writeBase(st, a, v)
		return
	}
	base := vc.readBase(st, a)
	vc.writeBase(st, a, vc.updatePath(a.BaseT, base, a.Path, v))
}

// valTerm returns the SMT term of a value that must be representable
func (vc *VC) valTerm(v Val) string {
	if v.S != "" {
		return v.S
	}
	if v.A != nil && v.A.Kind == aHeap && len(v.A.Path) == 0 {
		return v.A.Ref
	}
	if v.A != nil {
		vc.unsupportedf("interior or local pointer used as a value (%s)", vc.addrString(v.A))
		return vc.fresh("interior_ptr", "Int")
	}
	if v.Tup != nil {
		return "0"
	}
	vc.unsupportedf("value without term of type %v", v.T)
	return vc.fresh("noval", vc.S.sortOf(v.T))
}

func (vc *VC) addrString(a *Addr) string {
	switch a.Kind {
	case aLocal:
		return "local " + a.Cell.Name
	case aHeap:
		return fmt.Sprintf("heap %s path %d", typeKey(a.BaseT), len(a.Path))
	case aElem:
		return fmt.Sprintf("elem of []%s", typeKey(a.BaseT))
	}
	return "?"
}

// typeFacts returns facts that hold for every value of a Go type in a given state
// (allocatedness of references, non-negative lengths).
func (vc *VC) typeFacts(st *State, t types.Type, term string, depth int) []string {
	var out []string
	if depth > 3 {
		return nil
	}
	switch u := under(t).(type) {
	case *types.Pointer, *types.Map, *types.Chan:
		out = append(out, "(<= 0 "+term+")", "(< "+term+" "+st.alloc+")")
	case *types.Slice:
		out = append(out, "(<= 0 (s_len "+term+"))", "(<= (s_len "+term+") (s_cap "+term+"))", "(<= 0 (s_arr "+term+"))", "(< (s_arr "+term+") "+st.alloc+")",
			"(=> (= (s_arr "+term+") 0) (= (s_cap "+term+") 0))")
	case *types.Interface:
		out = append(out, "(<= 0 (i_typ "+term+"))", "(<= 0 (i_val "+term+"))", "(< (i_val "+term+") "+st.alloc+")", "(=> (= (i_typ "+term+") 0) (= (i_val "+term+") 0))")
	case *types.Struct:
		for i := 0; i < u.NumFields(); i++ {
			ft := u.Field(i).Type()
			switch under(ft).(type) {
			case *types.Pointer, *types.Map, *types.Chan, *types.Slice, *types.Interface, *types.Struct:
				out = append(out, vc.typeFacts(st, ft, vc.S.fieldSel(t, i, term), depth+1)...)
			}
		}
	case *types.Basic:
		if u.Kind() == types.Uint8 {
			out = append(out, "(<= 0 "+term+")", "(<= "+term+" 255)")
		} else if u.Info()&types.IsUnsigned != 0 {
			out = append(out, "(<= 0 "+term+")")
		}
	}
	return out
}

func (vc *VC) assumeTypeFacts(st *State, guard string, t types.Type, term string) {
	fs := vc.typeFacts(st, t, term, 0)
	if len(fs) == 0 {
		return
	}
	if len(fs) == 1 {
		vc.assume(fs[0])
		return
	}
	vc.assume("(and " + strings.Join(fs, " ") + ")")
}

// ---------------------------------------------------------------------------
// ghost state, spec functions
// ---------------------------------------------------------------------------

func (vc *VC) ghost(st *State, name string) string {
	if t, ok := st.ghosts[name]; ok {
		return t
	}
	g := vc.P.ghosts[name]
	n := fmt.Sprintf("g_%s@e%d", mangle(name), st.epoch)
	decl := fmt.Sprintf("(declare-const %s %s)", n, vc.S.tySort(vc.tyOfTypeExprL(g.Type, true)))
	found := false
	for _, l := range vc.epochDecls {
		if l == decl {
			found = true
		}
	}
	if !found {
		vc.epochDecls = append(vc.epochDecls, decl)
	}
	st.ghosts[name] = n
	return n
}

func (vc *VC) useGhostConst(name string) {
	g := vc.P.ghosts[name]
	decl := fmt.Sprintf("(declare-const gc_%s %s)", name, vc.S.tySort(vc.tyOfTypeExprL(g.Type, true)))
	for _, l := range vc.specDecls {
		if l == decl {
			return
		}
	}
	vc.specDecls = append(vc.specDecls, decl)
}

var cloEnvDeclared = map[*VC]map[int]bool{}

func (vc *VC) useCloEnv(i int) {
	decl := fmt.Sprintf("(declare-fun clo_env_%d (Int) Int)", i)
	for _, l := range vc.specDecls {
		if l == decl {
			return
		}
	}
	vc.specDecls = append(vc.specDecls, decl)
}

func (vc *VC) useCloFn() {
	decl := "(declare-fun clo_fn (Int) Int)"
	for _, l := range vc.specDecls {
		if l == decl {
			return
		}
	}
	vc.specDecls = append(vc.specDecls, decl)
}

func (vc *VC) useChanCap() {
	decl := "(declare-fun chan_cap (Int) Int)"
	for _, l := range vc.specDecls {
		if l == decl {
			return
		}
	}
	vc.specDecls = append(vc.specDecls, decl)
}

// useSpecFun declares a spec function (and, for transparent non-recursive ones, its definition)
func (vc *VC) useSpecFun0(name string) {
	if vc.specUsed == nil {
		vc.specUsed = map[string]bool{}
	}
	if vc.specUsed[name] {
		return
	}
	vc.specUsed[name] = true
	f := vc.P.specFuns[name]
	var ps []string
	var decl []string
	env := &Env{vc: vc, pure: true, st: &State{locals: map[*Cell]string{}, heaps: map[string]string{}, ghosts: map[string]string{}, alloc: "0"}}
	for _, p := range f.Params {
		ty := vc.tyOfTypeExprL(p.Type, true)
		s := vc.S.tySort(ty)
		ps = append(ps, s)
		pn := "p_" + mangle(p.Name)
		decl = append(decl, "("+pn+" "+s+")")
		bv := Val{S: pn}
		if ty.G != nil {
			bv.T = ty.G
		} else {
			t2 := ty
			bv.Ty = &t2
		}
		env = env.push(p.Name, bv)
	}
	rs := vc.S.tySort(vc.tyOfTypeExprL(f.Result, true))
	if f.Body == nil || ((f.Opaque || f.Rec) && !vc.replayMode) {
		vc.specDecls = append(vc.specDecls, fmt.Sprintf("(declare-fun %s (%s) %s)", specFunName(name), strings.Join(ps, " "), rs))
		return
	}
	if f.Rec {
		// replay mode: the contract is evaluated on concrete data, so recursive definitions are given to the solver
		body, bt := env.tr(f.Body)
		body = env.coerceNum(body, bt, vc.tyOfTypeExprL(f.Result, true))
		vc.specDecls = append(vc.specDecls, fmt.Sprintf("(define-fun-rec %s (%s) %s %s)", specFunName(name), strings.Join(decl, " "), rs, body))
		return
	}
	body, bt := env.tr(f.Body)
	body = env.coerceNum(body, bt, vc.tyOfTypeExprL(f.Result, true))
	vc.specDecls = append(vc.specDecls, fmt.Sprintf("(define-fun %s (%s) %s %s)", specFunName(name), strings.Join(decl, " "), rs, body))
}

// unfoldTerm returns the equation F(args) = body[args] for an opaque/recursive spec function
func (e *Env) unfoldEq(c *Call) string {
	vc := e.vc
	f, ok := vc.P.specFuns[c.Fun]
	if !ok || f.Body == nil {
		specFail("unfold: %s has no definition", c.Fun)
	}
	lhs, _ := e.tr(c)
	n := &Env{vc: vc, pure: true, st: e.st, bound: append([]boundVar{}, e.bound...)}
	for i, p := range f.Params {
		pt := vc.tyOfTypeExprL(p.Type, true)
		av := e.trVal(c.Args[i])
		s := e.coerceArg(av, pt, c.Args[i])
		bv := Val{S: s}
		if pt.G != nil {
			bv.T = pt.G
		} else {
			t2 := pt
			bv.Ty = &t2
		}
		n.bound = append(n.bound, boundVar{p.Name, bv})
	}
	rhs, rt := n.tr(f.Body)
	rhs = n.coerceNum(rhs, rt, vc.tyOfTypeExprL(f.Result, true))
	return "(= " + lhs + " " + rhs + ")"
}


// useSpecFun declares a spec function and, once per VC, every axiom that mentions it (axioms are assumed facts about
// uninterpreted functions - e.g. how fmt renders a particular format - and are listed in the trusted base)
func (vc *VC) useSpecFun(name string) {
	if vc.specUsed != nil && vc.specUsed[name] {
		return
	}
	vc.useSpecFun0(name)
	if vc.axUsed == nil {
		vc.axUsed = map[string]bool{}
	}
	for _, a := range vc.P.axioms {
		if vc.axUsed[a.Name] || !strings.Contains(a.E.String(), name+"(") {
			continue
		}
		vc.axUsed[a.Name] = true
		env := &Env{vc: vc, pure: true, st: &State{locals: map[*Cell]string{}, heaps: map[string]string{}, ghosts: map[string]string{}, alloc: "0"}}
		g := env.trBool(a.E)
		vc.specDecls = append(vc.specDecls, "(assert "+g+")")
		vc.trusted["axiom "+a.Name+": "+a.E.String()] = true
	}
}
