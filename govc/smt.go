package main

import (
	"bytes"
	"context"
	"fmt"
	"os"
	"os/exec"
	"path/filepath"
	"strings"
	"sync"
	"time"
)

// render produces the SMT-LIB text of an obligation
func (o *Obligation) render(forCVC5 bool) string {
	vc := o.vc
	var sb strings.Builder
	sb.WriteString("; obligation " + o.Name + "\n; " + strings.ReplaceAll(o.Src, "\n", " ") + "\n")
	if forCVC5 {
		sb.WriteString("(set-option :produce-models true)\n(set-logic ALL)\n")
	}
	for _, d := range vc.S.decls {
		sb.WriteString(d + "\n")
	}
	for _, d := range vc.S.strLitDecls() {
		sb.WriteString(d + "\n")
	}
	for _, d := range vc.S.strFunDecls() {
		sb.WriteString(d + "\n")
	}
	for _, d := range vc.epochDecls {
		sb.WriteString(d + "\n")
	}
	for _, d := range vc.specDecls {
		sb.WriteString(d + "\n")
	}
	var anc map[int]bool
	if vc.anc != nil && o.Block >= 0 {
		anc = vc.anc[o.Block]
	}
	for i, l := range vc.lines[:o.Prefix] {
		if anc != nil && i < len(vc.lineTag) && vc.lineTag[i] >= 0 && !anc[vc.lineTag[i]] {
			continue
		}
		if i < len(vc.lineScope) && vc.lineScope[i] != 0 && vc.lineScope[i] != o.Scope {
			vis := false
			for _, x := range o.Extra {
				if x == vc.lineScope[i] {
					vis = true
				}
			}
			if !vis {
				continue
			}
		}
		sb.WriteString(l + "\n")
	}
	for _, h := range o.Hints {
		sb.WriteString("(assert " + h + ")\n")
	}
	if o.Guard != "" && o.Guard != "true" {
		sb.WriteString("(assert " + o.Guard + ")\n")
	}
	if o.Expect == "sat" {
		sb.WriteString("(assert " + o.Goal + ")\n")
	} else {
		sb.WriteString("(assert (not " + o.Goal + "))\n")
	}
	sb.WriteString("(check-sat)\n")
	if !strings.Contains(sb.String(), "(forall") && !strings.Contains(sb.String(), "(exists") {
		sb.WriteString("(get-model)\n")
	}
	return sb.String()
}

type solverDef struct {
	name string
	args func(file string, timeout int, seed int) []string
}

var solvers = map[string]solverDef{
	"z3-new": {"z3-new", func(f string, t, seed int) []string {
		return []string{"z3-new", fmt.Sprintf("-T:%d", t), "smt.mbqi=false", fmt.Sprintf("smt.random_seed=%d", seed), fmt.Sprintf("sat.random_seed=%d", seed), f}
	}},
	// the same solver with relevancy propagation switched off: much faster on queries with many guarded
	// array equalities (no extensionality splits on atoms that do not matter)
	"z3-new-r0": {"z3-new-r0", func(f string, t, seed int) []string {
		return []string{"z3-new", fmt.Sprintf("-T:%d", t), "smt.mbqi=false", "smt.relevancy=0", fmt.Sprintf("smt.random_seed=%d", seed), fmt.Sprintf("sat.random_seed=%d", seed), f}
	}},
	"z3": {"z3", func(f string, t, seed int) []string {
		return []string{"z3", fmt.Sprintf("-T:%d", t), fmt.Sprintf("smt.random_seed=%d", seed), fmt.Sprintf("sat.random_seed=%d", seed), f}
	}},
	"cvc5": {"cvc5", func(f string, t, seed int) []string {
		return []string{"cvc5", fmt.Sprintf("--tlimit=%d", t*1000), fmt.Sprintf("--seed=%d", seed), f}
	}},
}

type runCfg struct {
	dir     string
	timeout int
	seed    int
	order   []string
	workers int
	keep    bool
}

func runSolver(name, file string, timeout, seed int) (verdict string, out string, secs float64) {
	def := solvers[name]
	args := def.args(file, timeout, seed)
	ctx, cancel := context.WithTimeout(context.Background(), time.Duration(timeout+5)*time.Second)
	defer cancel()
	cmd := exec.CommandContext(ctx, args[0], args[1:]...)
	var buf bytes.Buffer
	cmd.Stdout = &buf
	cmd.Stderr = &buf
	t0 := time.Now()
	_ = cmd.Run()
	secs = time.Since(t0).Seconds()
	out = buf.String()
	first := strings.TrimSpace(strings.SplitN(out, "\n", 2)[0])
	switch first {
	case "unsat", "sat", "unknown":
		verdict = first
	case "timeout":
		verdict = "timeout"
	default:
		if ctx.Err() != nil || strings.Contains(out, "timeout") || strings.Contains(out, "interrupted") {
			verdict = "timeout"
		} else {
			verdict = "error"
		}
	}
	return
}

func dischargeAll(obls []*Obligation, cfg runCfg) {
	os.MkdirAll(cfg.dir, 0o755)
	var wg sync.WaitGroup
	ch := make(chan *Obligation)
	for w := 0; w < cfg.workers; w++ {
		wg.Add(1)
		go func() {
			defer wg.Done()
			for o := range ch {
				dischargeOne(o, cfg)
			}
		}()
	}
	for _, o := range obls {
		ch <- o
	}
	close(ch)
	wg.Wait()
}

// raceSolvers runs several solver configurations on the same file concurrently and returns the first
// definitive answer (unsat/sat); the others are killed.
func raceSolvers(names []string, file string, timeout, seed int) (string, string, string, float64) {
	type res struct {
		name, verdict, out string
		secs               float64
	}
	ctx, cancel := context.WithCancel(context.Background())
	defer cancel()
	ch := make(chan res, len(names))
	for _, n := range names {
		n := n
		go func() {
			def := solvers[n]
			args := def.args(file, timeout, seed)
			c2, cancel2 := context.WithTimeout(ctx, time.Duration(timeout+5)*time.Second)
			defer cancel2()
			cmd := exec.CommandContext(c2, args[0], args[1:]...)
			var buf bytes.Buffer
			cmd.Stdout = &buf
			cmd.Stderr = &buf
			t0 := time.Now()
			_ = cmd.Run()
			out := buf.String()
			first := strings.TrimSpace(strings.SplitN(out, "\n", 2)[0])
			v := "error"
			switch first {
			case "unsat", "sat", "unknown":
				v = first
			default:
				if c2.Err() != nil || strings.Contains(out, "timeout") || strings.Contains(out, "interrupted") {
					v = "timeout"
				}
			}
			ch <- res{n, v, out, time.Since(t0).Seconds()}
		}()
	}
	last := res{verdict: "timeout"}
	for range names {
		r := <-ch
		if r.verdict == "unsat" || r.verdict == "sat" {
			return r.name, r.verdict, r.out, r.secs
		}
		if last.name == "" || r.verdict == "unknown" {
			last = r
		}
	}
	return last.name, last.verdict, last.out, last.secs
}

func dischargeOne(o *Obligation, cfg runCfg) {
	base := filepath.Join(cfg.dir, mangle(o.Name))
	if len(base) > 200 {
		base = base[:200]
	}
	want := "unsat"
	if o.Expect == "sat" {
		want = "sat"
	}
	// group the z3 configurations that read the same file into one race
	var groups [][]string
	var z3group []string
	for _, s := range cfg.order {
		if s == "cvc5" {
			continue
		}
		z3group = append(z3group, s)
	}
	if len(z3group) > 0 {
		groups = append(groups, z3group)
	}
	for _, s := range cfg.order {
		if s == "cvc5" {
			groups = append(groups, []string{s})
		}
	}
	var last, lastOut string
	total := 0.0
	for _, g := range groups {
		file := base + ".smt2"
		txt := o.render(g[0] == "cvc5")
		if g[0] == "cvc5" {
			file = base + ".cvc5.smt2"
		}
		if len(txt) > 4_000_000 {
			o.Status, o.Output = "error", "query too large"
			return
		}
		os.WriteFile(file, []byte(txt), 0o644)
		o.File = file
		s, v, out, secs := raceSolvers(g, file, cfg.timeout, cfg.seed)
		total += secs
		last, lastOut = v, out
		if o.Expect == "sat" && v != "unsat" && v != "error" {
			o.Solver, o.Time, o.Status = s, total, "discharged"
			if !cfg.keep {
				os.Remove(file)
			}
			return
		}
		if v == "unsat" || v == "sat" {
			o.Solver = s
			o.Time = total
			o.Output = out
			if v == want {
				o.Status = "discharged"
				if !cfg.keep {
					os.Remove(file)
				}
			} else {
				o.Status = "failed"
				if v == "sat" {
					o.Model = out
				}
			}
			return
		}
	}
	o.Time = total
	o.Status = last
	if last == "" {
		o.Status = "error"
	}
	o.Output = lastOut
}
