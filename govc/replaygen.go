package main

// Model-driven replay of a failed obligation against the real code.
//
//  1. the failed query is re-run (z3) with small-model bounds and a (get-value ...) of the ENTRY values of the
//     function's parameters (numbers, strings, times, structs, pointers, slices; anything else: no replay)
//  2. a Go test is generated that builds exactly these inputs, calls the REAL function (in-package test injected
//     with `go test -overlay`, nothing is written to the repository) and dumps results and the final state of the
//     arguments
//  3. the contract is evaluated on that real execution by the solver: entry values and observed final values are
//     pinned, the body is NOT executed symbolically, and for every ensures clause C the query "pins /\ requires /\ C"
//     must be UNSAT for the input to count as failing (so a clause that talks about things the run does not
//     determine - ghost state, uninterpreted library models - is never "refuted" by accident). A panic of the real
//     code on an input that satisfies the requires clauses is a failing input as well.
//
// Only when (3) succeeds the VIOLATION line loses its "no-failing-input-found" suffix.

import (
	"bytes"
	"context"
	"encoding/json"
	"flag"
	"fmt"
	"go/types"
	"math/big"
	"os"
	"os/exec"
	"path/filepath"
	"sort"
	"strconv"
	"strings"
	"time"

	"golang.org/x/tools/go/ssa"
)

const replayMaxLen = 4 // slices longer than this are not realised
const replayMaxStr = 24 // strings longer than this are not realised

type rnode struct {
	kind string // int bool real str time struct ptr slice iface-nil unsupported
	t    types.Type
	term string
	kids []*rnode
	// leaf query terms and their values
	q    []string
	vals []string
	why  string // reason for unsupported
}

// ---------------------------------------------------------------------------------------------
// 1. value tree over the entry state
// ---------------------------------------------------------------------------------------------

func isTimeTime(t types.Type) bool {
	n, ok := t.(*types.Named)
	return ok && n.Obj().Pkg() != nil && n.Obj().Pkg().Path() == "time" && n.Obj().Name() == "Time"
}

func (vc *VC) rbuild(st *State, t types.Type, term string, depth int) *rnode {
	n := &rnode{t: t, term: term}
	if depth > 4 {
		n.kind, n.why = "unsupported", "nesting deeper than 4"
		return n
	}
	if isTimeTime(t) {
		vc.useSpecFun("Inst")
		n.kind = "time"
		n.q = []string{"(" + specFunName("Inst") + " " + term + ")"}
		return n
	}
	switch u := under(t).(type) {
	case *types.Basic:
		switch {
		case u.Info()&types.IsBoolean != 0:
			n.kind = "bool"
		case u.Info()&types.IsInteger != 0:
			n.kind = "int"
		case u.Info()&types.IsFloat != 0:
			n.kind = "real"
		case u.Info()&types.IsString != 0:
			n.kind = "str"
			n.q = append(n.q, "(slen "+term+")")
			for i := 0; i < replayMaxStr; i++ {
				n.q = append(n.q, fmt.Sprintf("(sat %s %d)", term, i))
			}
			return n
		default:
			n.kind, n.why = "unsupported", "basic type "+u.String()
			return n
		}
		n.q = []string{term}
	case *types.Struct:
		n.kind = "struct"
		for i := 0; i < u.NumFields(); i++ {
			n.kids = append(n.kids, vc.rbuild(st, u.Field(i).Type(), vc.S.fieldSel(t, i, term), depth+1))
		}
	case *types.Pointer:
		n.kind = "ptr"
		n.q = []string{term}
		if _, isStruct := under(u.Elem()).(*types.Struct); isStruct || true {
			h := vc.heap(st, vc.cellHeapName(u.Elem()))
			n.kids = []*rnode{vc.rbuild(st, u.Elem(), "(select "+h+" "+term+")", depth+1)}
		}
	case *types.Slice:
		n.kind = "slice"
		n.q = []string{"(s_arr " + term + ")", "(s_len " + term + ")", "(s_cap " + term + ")"}
		h := vc.heap(st, vc.arrHeapName(u.Elem()))
		for i := 0; i < replayMaxLen; i++ {
			n.kids = append(n.kids, vc.rbuild(st, u.Elem(), fmt.Sprintf("(select (select %s (s_arr %s)) %d)", h, term, i), depth+1))
		}
	default:
		n.kind, n.why = "unsupported", "type "+t.String()
	}
	return n
}

func (n *rnode) walk(f func(*rnode)) {
	f(n)
	for _, k := range n.kids {
		k.walk(f)
	}
}

func (n *rnode) unsupported() string {
	why := ""
	n.walkLive(func(x *rnode) {
		if x.kind == "unsupported" && why == "" {
			why = x.why
		}
	})
	return why
}

// walkLive visits only the nodes that matter for the concrete value (pointee of a non-nil pointer, the first
// len elements of a slice); requires values to be filled for ptr/slice nodes, otherwise visits everything
func (n *rnode) walkLive(f func(*rnode)) {
	f(n)
	switch n.kind {
	case "ptr":
		if len(n.vals) == 1 && n.vals[0] == "0" {
			return
		}
	case "slice":
		if len(n.vals) == 3 {
			l, _ := strconv.Atoi(n.vals[1])
			for i, k := range n.kids {
				if i < l {
					k.walkLive(f)
				}
			}
			return
		}
	}
	for _, k := range n.kids {
		k.walkLive(f)
	}
}

// ---------------------------------------------------------------------------------------------
// s-expressions (solver values)
// ---------------------------------------------------------------------------------------------

type sexp struct {
	atom string
	list []*sexp
}

func parseSexps(s string) []*sexp {
	var out []*sexp
	pos := 0
	var parse func() *sexp
	skip := func() {
		for pos < len(s) && (s[pos] == ' ' || s[pos] == '\n' || s[pos] == '\t' || s[pos] == '\r') {
			pos++
		}
	}
	parse = func() *sexp {
		skip()
		if pos >= len(s) {
			return nil
		}
		if s[pos] == '(' {
			pos++
			n := &sexp{list: []*sexp{}}
			for {
				skip()
				if pos >= len(s) {
					return n
				}
				if s[pos] == ')' {
					pos++
					return n
				}
				c := parse()
				if c == nil {
					return n
				}
				n.list = append(n.list, c)
			}
		}
		if s[pos] == '|' {
			e := strings.IndexByte(s[pos+1:], '|')
			if e < 0 {
				e = len(s) - pos - 1
			}
			a := s[pos : pos+e+2]
			pos += e + 2
			return &sexp{atom: a}
		}
		st := pos
		for pos < len(s) && !strings.ContainsRune(" \n\t\r()", rune(s[pos])) {
			pos++
		}
		if st == pos {
			pos++
			return nil
		}
		return &sexp{atom: s[st:pos]}
	}
	for pos < len(s) {
		x := parse()
		if x != nil {
			out = append(out, x)
		}
	}
	return out
}

// numeric value of a solver term: integer, decimal, (- x), (/ a b)
func (e *sexp) rat() (*big.Rat, bool) {
	if e == nil {
		return nil, false
	}
	if e.list == nil {
		r, ok := new(big.Rat).SetString(e.atom)
		return r, ok
	}
	if len(e.list) == 2 && e.list[0].atom == "-" {
		r, ok := e.list[1].rat()
		if !ok {
			return nil, false
		}
		return r.Neg(r), true
	}
	if len(e.list) == 3 && e.list[0].atom == "/" {
		a, ok1 := e.list[1].rat()
		b, ok2 := e.list[2].rat()
		if !ok1 || !ok2 || b.Sign() == 0 {
			return nil, false
		}
		return a.Quo(a, b), true
	}
	return nil, false
}

func (e *sexp) String() string {
	if e.list == nil {
		return e.atom
	}
	var ss []string
	for _, c := range e.list {
		ss = append(ss, c.String())
	}
	return "(" + strings.Join(ss, " ") + ")"
}

// ---------------------------------------------------------------------------------------------
// model query
// ---------------------------------------------------------------------------------------------

type replayInput struct {
	params []*rnode
	names  []string
	level  string // which bound ladder step produced the model
}

func (vc *VC) replayInputs(o *Obligation, variation int) (*replayInput, string) {
	fr := vc.topFr
	if fr == nil || vc.fn == nil {
		return nil, "not a function unit"
	}
	fn := vc.fn
	if fn.Parent() != nil || len(fn.FreeVars) > 0 {
		return nil, "closure (cannot be called on its own)"
	}
	if fn.Signature.Variadic() {
		// the variadic parameter is an ordinary slice
	}
	in := &replayInput{}
	for _, p := range fn.Params {
		v := fr.regs[p]
		if v.S == "" {
			return nil, "parameter " + p.Name() + " has no term"
		}
		in.params = append(in.params, vc.rbuild(fr.entry, p.Type(), v.S, 0))
		in.names = append(in.names, p.Name())
	}
	// leaf queries
	var qs []string
	var owners []*rnode
	for _, r := range in.params {
		r.walk(func(x *rnode) {
			for range x.q {
				owners = append(owners, x)
			}
			qs = append(qs, x.q...)
			x.vals = nil
		})
	}
	if len(qs) == 0 {
		qs = []string{"true"}
		owners = []*rnode{{}}
	}
	src := o
	if variation > 0 {
		// inputs that satisfy the requires clauses only (the query of the entry vacuity check), varied by size
		src = nil
		for _, s := range vc.smokes {
			if strings.HasSuffix(s.Name, "/smoke/entry") {
				src = s
			}
		}
		if src == nil {
			return nil, "no entry state to draw inputs from"
		}
	}
	base := src.render(false)
	if i := strings.LastIndex(base, "(check-sat)"); i >= 0 {
		base = base[:i]
	}
	if variation > 0 {
		// the smoke query asserts its goal "true"; nothing to remove
	}
	// bounds ladder
	var small, lens []string
	for _, r := range in.params {
		r.walk(func(x *rnode) {
			switch x.kind {
			case "slice":
				lens = append(lens, fmt.Sprintf("(<= (s_len %s) %d)", x.term, replayMaxLen), fmt.Sprintf("(<= (s_cap %s) %d)", x.term, 2*replayMaxLen))
			case "str":
				lens = append(lens, fmt.Sprintf("(<= (slen %s) %d)", x.term, replayMaxStr))
				for i := 0; i < replayMaxStr; i++ {
					small = append(small, fmt.Sprintf("(=> (< %d (slen %s)) (and (<= 97 (sat %s %d)) (<= (sat %s %d) 122)))", i, x.term, x.term, i, x.term, i))
				}
			case "int":
				small = append(small, fmt.Sprintf("(and (<= (- 100) %s) (<= %s 100))", x.term, x.term))
			case "real":
				small = append(small, fmt.Sprintf("(and (is_int (* 4.0 %s)) (<= (- 64.0) %s) (<= %s 64.0))", x.term, x.term, x.term))
			case "time":
				small = append(small, fmt.Sprintf("(and (<= (- 1000000) %s) (<= %s 1000000))", x.q[0], x.q[0]))
			}
		})
	}
	ladder := []struct {
		name string
		as   []string
	}{{"small", append(append([]string{}, lens...), small...)}, {"free", nil}, {"ground-relaxation", append(append([]string{}, lens...), small...)}}
	if variation > 0 {
		var vary []string
		idx := 0
		lensTab := [][]int{{1, 1, 1}, {2, 2, 1}, {2, 1, 2}, {3, 2, 2}, {1, 2, 3}, {0, 1, 2}, {3, 3, 1}, {2, 3, 0}}
		tab := lensTab[(variation-1)%len(lensTab)]
		for _, r := range in.params {
			r.walk(func(x *rnode) {
				switch x.kind {
				case "slice":
					vary = append(vary, fmt.Sprintf("(= (s_len %s) %d)", x.term, tab[idx%len(tab)]))
					idx++
				case "str":
					if variation%2 == 0 {
						vary = append(vary, fmt.Sprintf("(and (= (slen %s) 1) (<= (sat %s 0) 98))", x.term, x.term))
					}
				}
			})
		}
		all := append(append(append([]string{}, lens...), small...), vary...)
		ladder = ladder[:0]
		ladder = append(ladder, struct {
			name string
			as   []string
		}{fmt.Sprintf("requires-only#%d", variation), all})
	}
	dir, err := os.MkdirTemp("", "govc-replayq-")
	if err != nil {
		return nil, err.Error()
	}
	defer os.RemoveAll(dir)
	for _, step := range ladder {
		var sb strings.Builder
		if step.name == "ground-relaxation" {
			// the quantified assumptions are dropped: the solver answers at once; the candidate is validated afterwards
			// (requires clauses are PROVED on the concrete input before the run counts)
			for _, ln := range strings.Split(base, "\n") {
				if strings.HasPrefix(ln, "(assert") && (strings.Contains(ln, "(forall") || strings.Contains(ln, "(exists")) {
					continue
				}
				sb.WriteString(ln + "\n")
			}
		} else {
			sb.WriteString(base)
		}
		for _, a := range step.as {
			sb.WriteString("(assert " + a + ")\n")
		}
		sb.WriteString("(check-sat)\n(get-value (" + strings.Join(qs, "\n ") + "))\n")
		f := filepath.Join(dir, step.name+".smt2")
		os.WriteFile(f, []byte(sb.String()), 0o644)
		ctx, cancel := context.WithTimeout(context.Background(), 12*time.Second)
		cmd := exec.CommandContext(ctx, "z3-new", "-T:8", "smt.mbqi=false", f)
		var buf bytes.Buffer
		cmd.Stdout = &buf
		cmd.Stderr = &buf
		_ = cmd.Run()
		cancel()
		out := buf.String()
		for strings.HasPrefix(out, "(error ") {
			// assertions that do not parse (a ghost block bound to a different statement after a code change) are skipped
			if i := strings.Index(out, "\n"); i >= 0 {
				out = out[i+1:]
			} else {
				break
			}
		}
		first := strings.TrimSpace(strings.SplitN(out, "\n", 2)[0])
		if os.Getenv("GOVC_REPLAY_DEBUG") != "" {
			fmt.Fprintf(os.Stderr, "replay-query %s %s: %s\n", o.Name, step.name, truncateStr(strings.ReplaceAll(out, "\n", " | "), 300))
			os.WriteFile("/tmp/replayq_"+step.name+".smt2", []byte(sb.String()), 0o644)
		}
		if first != "sat" && first != "unknown" {
			continue
		}
		rest := out[strings.Index(out, "\n")+1:]
		xs := parseSexps(rest)
		if len(xs) == 0 || len(xs[0].list) != len(qs) {
			continue
		}
		ok := true
		for i, pair := range xs[0].list {
			if len(pair.list) != 2 {
				ok = false
				break
			}
			owners[i].vals = append(owners[i].vals, pair.list[1].String())
		}
		if !ok {
			for _, r := range in.params {
				r.walk(func(x *rnode) { x.vals = nil })
			}
			continue
		}
		in.level = step.name
		// realisable?
		for _, r := range in.params {
			if why := r.unsupported(); why != "" {
				return nil, "input not realisable: " + why
			}
			bad := ""
			r.walkLive(func(x *rnode) {
				switch x.kind {
				case "slice":
					l, _ := strconv.Atoi(x.vals[1])
					c, _ := strconv.Atoi(x.vals[2])
					if l > replayMaxLen || c > 4*replayMaxLen || l < 0 || c < l {
						bad = "slice length/capacity outside the replay bound"
					}
				case "str":
					l, _ := strconv.Atoi(x.vals[0])
					if l > replayMaxStr || l < 0 {
						bad = "string longer than the replay bound"
					}
				case "int", "time":
					if r, ok := parseSexps(x.vals[0])[0].rat(); !ok || !r.IsInt() || r.Num().BitLen() > 62 {
						bad = "integer outside int64"
					}
				}
			})
			if bad != "" {
				return nil, bad
			}
		}
		return in, ""
	}
	return nil, "the solver produced no model for the entry values"
}

// ---------------------------------------------------------------------------------------------
// concrete values (shared shape for model inputs and observed outputs)
// ---------------------------------------------------------------------------------------------

// cval is a concrete value: the JSON shape the generated test dumps.
//
//	int/bool: {"k":"int","v":"12"} ; real: {"k":"real","v":"0.25"} ; str: {"k":"str","b":[..]}
//	time: {"k":"time","v":"<unix nanos>"} ; struct: {"k":"struct","f":[...]} ; ptr: {"k":"ptr","nil":true} | {"k":"ptr","p":...,"id":n}
//	slice: {"k":"slice","nil":bool,"len":n,"cap":c,"e":[...]} ; iface: {"k":"iface","nil":bool,"dyn":"T","msg":"..."} ; opaque
type cval struct {
	K   string  `json:"k"`
	V   string  `json:"v,omitempty"`
	B   []int   `json:"b,omitempty"`
	F   []*cval `json:"f,omitempty"`
	P   *cval   `json:"p,omitempty"`
	Nil bool    `json:"nil,omitempty"`
	Len int     `json:"len,omitempty"`
	Cap int     `json:"cap,omitempty"`
	E   []*cval `json:"e,omitempty"`
	Dyn string  `json:"dyn,omitempty"`
	Msg string  `json:"msg,omitempty"`
	ID  int     `json:"id,omitempty"`
}

func (n *rnode) concrete() *cval {
	val := func(i int) *big.Rat {
		r, ok := parseSexps(n.vals[i])[0].rat()
		if !ok {
			return new(big.Rat)
		}
		return r
	}
	switch n.kind {
	case "int":
		return &cval{K: "int", V: val(0).Num().String()}
	case "time":
		return &cval{K: "time", V: val(0).Num().String()}
	case "bool":
		return &cval{K: "bool", V: n.vals[0]}
	case "real":
		f, _ := val(0).Float64()
		return &cval{K: "real", V: strconv.FormatFloat(f, 'g', -1, 64)}
	case "str":
		l := int(val(0).Num().Int64())
		c := &cval{K: "str", B: []int{}}
		for i := 0; i < l; i++ {
			c.B = append(c.B, int(val(1+i).Num().Int64())&255)
		}
		return c
	case "struct":
		c := &cval{K: "struct"}
		for _, k := range n.kids {
			c.F = append(c.F, k.concrete())
		}
		return c
	case "ptr":
		ref := val(0).Num().Int64()
		if ref == 0 {
			return &cval{K: "ptr", Nil: true}
		}
		return &cval{K: "ptr", P: n.kids[0].concrete(), ID: int(ref)}
	case "slice":
		arr, l, cp := val(0).Num().Int64(), int(val(1).Num().Int64()), int(val(2).Num().Int64())
		c := &cval{K: "slice", Len: l, Cap: cp, Nil: arr == 0, ID: int(arr), E: []*cval{}}
		for i := 0; i < l; i++ {
			c.E = append(c.E, n.kids[i].concrete())
		}
		return c
	}
	return &cval{K: "opaque"}
}

// exactness: the rounded float64 equals the model's rational
func (n *rnode) exact() bool {
	ok := true
	n.walkLive(func(x *rnode) {
		if x.kind == "real" {
			r, good := parseSexps(x.vals[0])[0].rat()
			if !good {
				ok = false
				return
			}
			f, exact := r.Float64()
			_ = f
			if !exact {
				ok = false
			}
		}
	})
	return ok
}

// ---------------------------------------------------------------------------------------------
// 2. the generated test
// ---------------------------------------------------------------------------------------------

type goGen struct {
	pkg     *types.Package
	imports map[string]string // path -> name
	pre     []string
	ptrVars map[string]string
	nvar    int
	bad     string
}

func (g *goGen) qual(p *types.Package) string {
	if p == g.pkg {
		return ""
	}
	g.imports[p.Path()] = p.Name()
	return p.Name()
}

func (g *goGen) typeStr(t types.Type) string { return types.TypeString(t, g.qual) }

func (g *goGen) expr(t types.Type, c *cval) string {
	ts := g.typeStr(t)
	switch c.K {
	case "int":
		return ts + "(" + c.V + ")"
	case "bool":
		return ts + "(" + c.V + ")"
	case "real":
		return ts + "(" + c.V + ")"
	case "str":
		b := make([]byte, len(c.B))
		for i, x := range c.B {
			b[i] = byte(x)
		}
		return ts + "(" + strconv.Quote(string(b)) + ")"
	case "time":
		g.imports["time"] = "time"
		return "time.Unix(0, " + c.V + ").UTC()"
	case "struct":
		st, _ := structOf(t)
		var fs []string
		for i, f := range c.F {
			fld := st.Field(i)
			if !fld.Exported() && fld.Pkg() != g.pkg {
				g.bad = "unexported field of a foreign struct " + ts
				return ts + "{}"
			}
			fs = append(fs, fld.Name()+": "+g.expr(fld.Type(), f))
		}
		return ts + "{" + strings.Join(fs, ", ") + "}"
	case "ptr":
		if c.Nil {
			return "(" + ts + ")(nil)"
		}
		key := fmt.Sprintf("%s#%d", ts, c.ID)
		if v, ok := g.ptrVars[key]; ok {
			return v
		}
		g.nvar++
		v := fmt.Sprintf("p%d", g.nvar)
		g.ptrVars[key] = v
		et := under(t).(*types.Pointer).Elem()
		g.pre = append(g.pre, fmt.Sprintf("%s := new(%s)", v, g.typeStr(et)))
		g.pre = append(g.pre, fmt.Sprintf("*%s = %s", v, g.expr(et, c.P)))
		g.pre = append(g.pre, fmt.Sprintf("govcObjs[reflect.ValueOf(%s).Pointer()] = %d", v, c.ID))
		return v
	case "slice":
		if c.Nil && c.Len == 0 {
			return ts + "(nil)"
		}
		key := fmt.Sprintf("%s#%d", ts, c.ID)
		if v, ok := g.ptrVars[key]; ok {
			return fmt.Sprintf("%s[:%d]", v, c.Len)
		}
		g.nvar++
		v := fmt.Sprintf("s%d", g.nvar)
		g.ptrVars[key] = v
		cp := c.Cap
		if cp < c.Len {
			cp = c.Len
		}
		et := under(t).(*types.Slice).Elem()
		g.pre = append(g.pre, fmt.Sprintf("%s := make(%s, %d, %d)", v, ts, c.Len, cp))
		for i, e := range c.E {
			g.pre = append(g.pre, fmt.Sprintf("%s[%d] = %s", v, i, g.expr(et, e)))
		}
		if cp > 0 && c.ID != 0 {
			g.pre = append(g.pre, fmt.Sprintf("govcObjs[reflect.ValueOf(%s).Pointer()] = %d", v, c.ID))
		}
		return v
	}
	g.bad = "value of kind " + c.K
	return "nil"
}

const dumperSrc = `
var govcObjs = map[uintptr]int{}
func govcDump(v reflect.Value, depth int) map[string]interface{} {
	if depth > 6 {
		return map[string]interface{}{"k": "opaque"}
	}
	if v.IsValid() && v.Type() == reflect.TypeOf(time.Time{}) {
		var t time.Time
		if v.CanInterface() {
			t = v.Interface().(time.Time)
		} else {
			return map[string]interface{}{"k": "opaque"}
		}
		return map[string]interface{}{"k": "time", "v": strconv.FormatInt(t.UnixNano(), 10)}
	}
	switch v.Kind() {
	case reflect.Bool:
		return map[string]interface{}{"k": "bool", "v": strconv.FormatBool(v.Bool())}
	case reflect.Int, reflect.Int8, reflect.Int16, reflect.Int32, reflect.Int64:
		return map[string]interface{}{"k": "int", "v": strconv.FormatInt(v.Int(), 10)}
	case reflect.Uint, reflect.Uint8, reflect.Uint16, reflect.Uint32, reflect.Uint64, reflect.Uintptr:
		return map[string]interface{}{"k": "int", "v": strconv.FormatUint(v.Uint(), 10)}
	case reflect.Float32, reflect.Float64:
		return map[string]interface{}{"k": "real", "v": strconv.FormatFloat(v.Float(), 'g', -1, 64)}
	case reflect.String:
		s := v.String()
		b := make([]int, len(s))
		for i := 0; i < len(s); i++ {
			b[i] = int(s[i])
		}
		return map[string]interface{}{"k": "str", "b": b}
	case reflect.Struct:
		var fs []interface{}
		for i := 0; i < v.NumField(); i++ {
			fs = append(fs, govcDump(v.Field(i), depth+1))
		}
		return map[string]interface{}{"k": "struct", "f": fs}
	case reflect.Ptr:
		if v.IsNil() {
			return map[string]interface{}{"k": "ptr", "nil": true}
		}
		m := map[string]interface{}{"k": "ptr", "p": govcDump(v.Elem(), depth+1)}
		if id, ok := govcObjs[v.Pointer()]; ok {
			m["id"] = id
		}
		return m
	case reflect.Slice:
		es := []interface{}{}
		for i := 0; i < v.Len() && i < 64; i++ {
			es = append(es, govcDump(v.Index(i), depth+1))
		}
		m := map[string]interface{}{"k": "slice", "nil": v.IsNil(), "len": v.Len(), "cap": v.Cap(), "e": es}
		if id, ok := govcObjs[v.Pointer()]; ok && v.Cap() > 0 {
			m["id"] = id
		}
		return m
	case reflect.Interface:
		if v.IsNil() {
			return map[string]interface{}{"k": "iface", "nil": true}
		}
		m := map[string]interface{}{"k": "iface", "dyn": v.Elem().Type().String()}
		if v.CanInterface() {
			if e, ok := v.Interface().(error); ok {
				m["msg"] = e.Error()
			}
		}
		return m
	}
	return map[string]interface{}{"k": "opaque"}
}
`

// genTest returns the source of the in-package test and a readable rendering of the call
func genTest(fn *ssa.Function, in *replayInput) (src string, call string, why string) {
	g := &goGen{pkg: fn.Pkg.Pkg, imports: map[string]string{}, ptrVars: map[string]string{}}
	var args []string
	for i, p := range in.params {
		c := p.concrete()
		e := g.expr(p.t, c)
		v := fmt.Sprintf("a%d", i)
		g.pre = append(g.pre, fmt.Sprintf("%s := %s // %s", v, e, in.names[i]))
		args = append(args, v)
	}
	if g.bad != "" {
		return "", "", g.bad
	}
	sig := fn.Signature
	var callee string
	cargs := args
	if sig.Recv() != nil {
		callee = args[0] + "." + fn.Name()
		cargs = args[1:]
	} else {
		callee = fn.Name()
	}
	if sig.Variadic() && len(cargs) > 0 {
		cargs = append(append([]string{}, cargs[:len(cargs)-1]...), cargs[len(cargs)-1]+"...")
	}
	call = callee + "(" + strings.Join(cargs, ", ") + ")"
	nres := sig.Results().Len()
	var lhs []string
	for i := 0; i < nres; i++ {
		lhs = append(lhs, fmt.Sprintf("r%d", i))
	}
	var sb strings.Builder
	sb.WriteString("package " + fn.Pkg.Pkg.Name() + "\n\nimport (\n\t\"encoding/json\"\n\t\"fmt\"\n\t\"reflect\"\n\t\"strconv\"\n\t\"testing\"\n\t\"time\"\n")
	var ips []string
	for p := range g.imports {
		ips = append(ips, p)
	}
	sort.Strings(ips)
	for _, p := range ips {
		if p == "time" {
			continue
		}
		sb.WriteString(fmt.Sprintf("\t%s %q\n", g.imports[p], p))
	}
	sb.WriteString(")\n\nvar _ = time.Now\n" + dumperSrc + "\nfunc TestGovcReplay(t *testing.T) {\n")
	for _, l := range g.pre {
		sb.WriteString("\t" + l + "\n")
	}
	sb.WriteString("\tdefer func() {\n\t\tif r := recover(); r != nil {\n\t\t\tfmt.Printf(\"GOVC-REPLAY-PANIC: %v\\n\", r)\n\t\t}\n\t}()\n")
	if nres > 0 {
		sb.WriteString("\t" + strings.Join(lhs, ", ") + " := " + call + "\n")
	} else {
		sb.WriteString("\t" + call + "\n")
	}
	sb.WriteString("\tout := map[string]interface{}{}\n\tvar res []interface{}\n")
	for _, r := range lhs {
		sb.WriteString("\tres = append(res, govcDump(reflect.ValueOf(&" + r + ").Elem(), 0))\n")
	}
	sb.WriteString("\tout[\"results\"] = res\n\tvar ps []interface{}\n")
	for _, a := range args {
		sb.WriteString("\tps = append(ps, govcDump(reflect.ValueOf(&" + a + ").Elem(), 0))\n")
	}
	sb.WriteString("\tout[\"params\"] = ps\n\tb, _ := json.Marshal(out)\n\tfmt.Printf(\"GOVC-REPLAY-OUT: %s\\n\", b)\n}\n")
	var pl []string
	for _, l := range g.pre {
		pl = append(pl, l)
	}
	return sb.String(), strings.Join(pl, "\n") + "\n" + call, ""
}

type replayRun struct {
	Panic   string
	Results []*cval `json:"results"`
	Params  []*cval `json:"params"`
	Raw     string
}

// runGenTest injects the test into the function's package with -overlay and runs it
func runGenTest(P *Prog, fn *ssa.Function, src string) (*replayRun, string) {
	file := P.prog.Fset.Position(fn.Pos()).Filename
	if file == "" {
		return nil, "no source position"
	}
	return runGenTestIn(filepath.Dir(file), src)
}

func runGenTestIn(dir string, src string) (*replayRun, string) {
	tmp, err := os.MkdirTemp("", "govc-replay-")
	if err != nil {
		return nil, err.Error()
	}
	defer os.RemoveAll(tmp)
	tf := filepath.Join(tmp, "zz_govc_replay_test.go")
	os.WriteFile(tf, []byte(src), 0o644)
	ov := map[string]any{"Replace": map[string]string{filepath.Join(dir, "zz_govc_replay_test.go"): tf}}
	ob, _ := json.Marshal(ov)
	ovf := filepath.Join(tmp, "ov.json")
	os.WriteFile(ovf, ob, 0o644)
	ctx, cancel := context.WithTimeout(context.Background(), 150*time.Second)
	defer cancel()
	cmd := exec.CommandContext(ctx, "go", "test", "-overlay", ovf, "-vet=off", "-count=1", "-timeout", "60s", "-run", "^TestGovcReplay$", "-v", ".")
	cmd.Dir = dir
	var env []string
	for _, e := range os.Environ() {
		if strings.HasPrefix(e, "GOFLAGS=") {
			continue
		}
		env = append(env, e)
	}
	env = append(env, "GOFLAGS=", "GOPROXY=off", "GOSUMDB=off", "GOTOOLCHAIN=local")
	cmd.Env = env
	var buf bytes.Buffer
	cmd.Stdout = &buf
	cmd.Stderr = &buf
	_ = cmd.Run()
	out := buf.String()
	rr := &replayRun{Raw: tail(out, 1200)}
	for _, ln := range strings.Split(out, "\n") {
		if i := strings.Index(ln, "GOVC-REPLAY-PANIC: "); i >= 0 {
			rr.Panic = strings.TrimSpace(ln[i+len("GOVC-REPLAY-PANIC: "):])
			return rr, ""
		}
		if i := strings.Index(ln, "GOVC-REPLAY-OUT: "); i >= 0 {
			if err := json.Unmarshal([]byte(ln[i+len("GOVC-REPLAY-OUT: "):]), rr); err != nil {
				return nil, "cannot parse the replay output: " + err.Error()
			}
			return rr, ""
		}
	}
	return nil, "the generated test did not run: " + tail(out, 600)
}

// ---------------------------------------------------------------------------------------------
// 3. the contract evaluated on the real execution
// ---------------------------------------------------------------------------------------------

type replayPin struct {
	in  *replayInput
	run *replayRun
}

// rpin asserts that the value `term` of Go type t in state st is the concrete value c
func (vc *VC) rpin(st *State, t types.Type, term string, c *cval, depth int) {
	if c == nil || depth > 6 {
		return
	}
	switch c.K {
	case "int":
		if isTimeTime(t) {
			return
		}
		vc.assume("(= " + term + " " + smtIntS(c.V) + ")")
	case "bool":
		vc.assume("(= " + term + " " + c.V + ")")
	case "real":
		f, err := strconv.ParseFloat(c.V, 64)
		if err != nil || f != f || f > 1e300 || f < -1e300 {
			return
		}
		r := new(big.Rat)
		r.SetFloat64(f)
		vc.assume("(= " + term + " " + smtRat(r) + ")")
	case "str":
		b := make([]byte, len(c.B))
		for i, x := range c.B {
			b[i] = byte(x)
		}
		vc.replayStrs[string(b)] = true
		vc.assume("(= " + term + " " + vc.S.strLit(string(b)) + ")")
	case "time":
		vc.useSpecFun("Inst")
		vc.assume("(= (" + specFunName("Inst") + " " + term + ") " + smtIntS(c.V) + ")")
	case "struct":
		st2, _ := structOf(t)
		if st2 == nil || st2.NumFields() != len(c.F) {
			return
		}
		for i, f := range c.F {
			vc.rpin(st, st2.Field(i).Type(), vc.S.fieldSel(t, i, term), f, depth+1)
		}
	case "ptr":
		pt, ok := under(t).(*types.Pointer)
		if !ok {
			return
		}
		if c.Nil {
			vc.assume("(= " + term + " 0)")
			return
		}
		vc.assume("(not (= " + term + " 0))")
		if c.ID != 0 {
			vc.assume(fmt.Sprintf("(= %s %s)", term, smtIntS(strconv.Itoa(c.ID))))
		} else {
			vc.notRegistered(term)
		}
		h := vc.heap(st, vc.cellHeapName(pt.Elem()))
		vc.rpin(st, pt.Elem(), "(select "+h+" "+term+")", c.P, depth+1)
	case "slice":
		sl, ok := under(t).(*types.Slice)
		if !ok {
			return
		}
		if c.Nil && c.Len == 0 {
			vc.assume("(= " + term + " (mk_slice 0 0 0))")
			return
		}
		vc.assume(fmt.Sprintf("(and (= (s_len %s) %d) (= (s_cap %s) %d))", term, c.Len, term, c.Cap))
		if c.ID != 0 {
			vc.assume(fmt.Sprintf("(= (s_arr %s) %s)", term, smtIntS(strconv.Itoa(c.ID))))
		} else if c.Cap > 0 {
			vc.notRegistered("(s_arr " + term + ")")
		}
		h := vc.heap(st, vc.arrHeapName(sl.Elem()))
		for i, e := range c.E {
			vc.rpin(st, sl.Elem(), fmt.Sprintf("(select (select %s (s_arr %s)) %d)", h, term, i), e, depth+1)
		}
	case "iface":
		if c.Nil {
			vc.assume("(= " + term + " (mk_iface 0 0))")
		} else {
			vc.assume("(not (= (i_typ " + term + ") 0))")
		}
	}
}

// notRegistered: an object the run produced that is none of the input objects
func (vc *VC) notRegistered(term string) {
	for _, id := range vc.replayIDs {
		vc.assume(fmt.Sprintf("(not (= %s %s))", term, smtIntS(strconv.Itoa(id))))
	}
}

func smtIntS(s string) string {
	if strings.HasPrefix(s, "-") {
		return "(- " + s[1:] + ")"
	}
	return s
}

func smtRat(r *big.Rat) string {
	neg := r.Sign() < 0
	a := new(big.Rat).Abs(r)
	s := a.Num().String() + ".0"
	if !a.IsInt() {
		s = "(/ " + a.Num().String() + ".0 " + a.Denom().String() + ".0)"
	}
	if neg {
		return "(- " + s + ")"
	}
	return s
}

// replayBody replaces the symbolic execution of the body: entry values and the observed final values are pinned
// and every ensures clause becomes an obligation "the clause is impossible on this execution".
func (vc *VC) replayPinInputs(fr *Frame, st *State, rp *replayPin) {
	vc.replayMode = true
	vc.replayStrs = map[string]bool{}
	vc.replayIDs = nil
	fn := fr.fn
	var cs []*cval
	for i := range fn.Params {
		c := rp.in.params[i].concrete()
		cs = append(cs, c)
		c.walk(func(x *cval) {
			if x.ID != 0 && (x.K == "ptr" || x.K == "slice") {
				vc.replayIDs = append(vc.replayIDs, x.ID)
			}
		})
	}
	for i, p := range fn.Params {
		vc.rpin(st, p.Type(), fr.regs[p].S, cs[i], 0)
	}
}

func (c *cval) walk(f func(*cval)) {
	if c == nil {
		return
	}
	f(c)
	for _, k := range c.F {
		k.walk(f)
	}
	for _, k := range c.E {
		k.walk(f)
	}
	c.P.walk(f)
}

func (vc *VC) replayBody(fr *Frame, st *State, rp *replayPin) {
	fn := fr.fn
	vc.smoke(vc.unit+"/replay-smoke/entry", nil, "true")
	fin := st.clone()
	vc.havocAll(fin)
	na := vc.fresh("alloc", "Int")
	vc.assume("(>= " + na + " " + st.alloc + ")")
	fin.alloc = na
	// final state of what the arguments refer to
	for i, p := range fn.Params {
		if i >= len(rp.run.Params) {
			break
		}
		c := rp.run.Params[i]
		switch under(p.Type()).(type) {
		case *types.Pointer:
			if c != nil && c.K == "ptr" && !c.Nil {
				pt := under(p.Type()).(*types.Pointer)
				h := vc.heap(fin, vc.cellHeapName(pt.Elem()))
				vc.rpin(fin, pt.Elem(), "(select "+h+" "+fr.regs[p].S+")", c.P, 1)
			}
		case *types.Slice:
			if c != nil && c.K == "slice" {
				sl := under(p.Type()).(*types.Slice)
				h := vc.heap(fin, vc.arrHeapName(sl.Elem()))
				for j, e := range c.E {
					vc.rpin(fin, sl.Elem(), fmt.Sprintf("(select (select %s (s_arr %s)) %d)", h, fr.regs[p].S, j), e, 1)
				}
			}
		case *types.Struct:
			// by-value struct: its pointer / slice fields may have been written through
			vc.rpinRefs(fin, p.Type(), fr.regs[p].S, c, 0)
		}
	}
	// results
	res := fn.Signature.Results()
	var vals []Val
	for i := 0; i < res.Len(); i++ {
		t := res.At(i).Type()
		r := vc.fresh(fmt.Sprintf("rr%d", i), vc.S.sortOf(t))
		vc.assumeTypeFacts(fin, "", t, r)
		if i < len(rp.run.Results) {
			vc.rpin(fin, t, r, rp.run.Results[i], 0)
		}
		vals = append(vals, Val{T: t, S: r})
	}
	// the real byte order of the strings that occur (the contracts' order on strings is abstract)
	var ss []string
	for s := range vc.replayStrs {
		ss = append(ss, s)
	}
	sort.Strings(ss)
	if len(ss) > 1 {
		vc.S.useStr("slt")
		for i := 0; i+1 < len(ss); i++ {
			vc.assume("(slt " + vc.S.strLit(ss[i]) + " " + vc.S.strLit(ss[i+1]) + ")")
		}
	}
	vc.smoke(vc.unit+"/replay-smoke/final", nil, "true")
	vc.execReturn(fr, fin, "true", vals)
}

// rpinRefs pins only what a by-value struct argument REFERS to in the final state
func (vc *VC) rpinRefs(st *State, t types.Type, term string, c *cval, depth int) {
	if c == nil || c.K != "struct" || depth > 3 {
		return
	}
	s, _ := structOf(t)
	if s == nil || s.NumFields() != len(c.F) {
		return
	}
	for i, f := range c.F {
		ft := s.Field(i).Type()
		ftm := vc.S.fieldSel(t, i, term)
		switch u := under(ft).(type) {
		case *types.Pointer:
			if f.K == "ptr" && !f.Nil {
				h := vc.heap(st, vc.cellHeapName(u.Elem()))
				vc.rpin(st, u.Elem(), "(select "+h+" "+ftm+")", f.P, depth+1)
			}
		case *types.Slice:
			if f.K == "slice" {
				h := vc.heap(st, vc.arrHeapName(u.Elem()))
				for j, e := range f.E {
					vc.rpin(st, u.Elem(), fmt.Sprintf("(select (select %s (s_arr %s)) %d)", h, ftm, j), e, depth+1)
				}
			}
		case *types.Struct:
			vc.rpinRefs(st, ft, ftm, f, depth+1)
		}
	}
}

// ---------------------------------------------------------------------------------------------
// driver
// ---------------------------------------------------------------------------------------------

type replayResult struct {
	Confirmed bool     `json:"confirmed"`
	Function  string   `json:"function"`
	Call      string   `json:"call,omitempty"`
	Observed  any      `json:"observed,omitempty"`
	Panic     string   `json:"panic,omitempty"`
	Violated  string   `json:"violated_clause,omitempty"`
	Model     string   `json:"model_bounds,omitempty"`
	Why       string   `json:"why_not,omitempty"`
	TestFile  string   `json:"test_file,omitempty"`
	Source    string   `json:"input_source,omitempty"`
	PkgDir    string   `json:"pkg_dir,omitempty"` // directory of the function's package, relative to the repository root
	Tried     []string `json:"candidates_tried,omitempty"`
	How       string   `json:"how"`
}

const replayHow = "entry values of the parameters taken from the solver's model of the failed query; the REAL function run on them by an in-package test injected with go test -overlay; the contract then evaluated on the observed execution by the solver (pins /\\ requires /\\ clause must be unsat)"

// modelReplay tries to turn a failed obligation into a failing input of the real code. Candidate inputs: first the
// solver's model of the failed query itself; when there is none (time-out / unknown without values) or it does not
// fail on the real code, up to eight solver models of the function's requires clauses alone, varied in size.
func modelReplay(P *Prog, o *Obligation, saveDir string) *replayResult {
	vc := o.vc
	first := &replayResult{How: replayHow}
	if vc == nil || vc.fn == nil {
		first.Why = "not a function obligation"
		return first
	}
	first.Function = vc.unit
	var tried []string
	for variation := 0; variation <= 4; variation++ {
		rr := replayOnce(P, o, saveDir, variation)
		if rr.Confirmed {
			rr.Tried = tried
			return rr
		}
		tried = append(tried, fmt.Sprintf("%s: %s", rr.Source, rr.Why))
		if variation == 0 {
			first = rr
		}
		if strings.HasPrefix(rr.Why, "closure") || strings.HasPrefix(rr.Why, "input not realisable") || strings.HasPrefix(rr.Why, "not a function") || strings.HasPrefix(rr.Why, "value of kind") || strings.HasPrefix(rr.Why, "unexported field") {
			break
		}
	}
	first.Tried = tried
	return first
}

func replayOnce(P *Prog, o *Obligation, saveDir string, variation int) *replayResult {
	vc := o.vc
	rr := &replayResult{How: replayHow, Function: vc.unit, Source: "model of the failed obligation"}
	if variation > 0 {
		rr.Source = fmt.Sprintf("solver model of the requires clauses alone (size variation %d)", variation)
	}
	fn := vc.fn
	in, why := vc.replayInputs(o, variation)
	if in == nil {
		rr.Why = why
		return rr
	}
	rr.Model = in.level
	src, call, why := genTest(fn, in)
	if src == "" {
		rr.Why = why
		return rr
	}
	rr.Call = call
	run, why := runGenTest(P, fn, src)
	if run == nil {
		rr.Why = why
		return rr
	}
	exact := true
	for _, p := range in.params {
		if !p.exact() {
			exact = false
		}
	}
	save := func() {
		if saveDir != "" {
			os.MkdirAll(saveDir, 0o755)
			tf := filepath.Join(saveDir, mangle(o.Name)+"_replay_test.go.txt")
			os.WriteFile(tf, []byte(src), 0o644)
			rr.TestFile = tf
			if rel, err := filepath.Rel(P.repo, filepath.Dir(P.prog.Fset.Position(fn.Pos()).Filename)); err == nil {
				rr.PkgDir = rel
			}
		}
	}
	if run.Panic != "" {
		rr.Panic = run.Panic
		spec := vc.spec
		if spec != nil && !spec.NoSafety && exact {
			// requires hold on the model's entry values by construction; the function under contract must not panic
			rr.Confirmed = true
			rr.Violated = "the function panics on an input that satisfies its requires clauses"
			save()
		} else {
			rr.Why = "the real code panicked, but the input is not exactly the model's (rounded floats) or the contract makes no safety claim"
		}
		return rr
	}
	rr.Observed = map[string]any{"results": run.Results, "params_after": run.Params}
	if !exact {
		rr.Why = "the model's real numbers are not float64 values: the rounded input need not satisfy the requires clauses"
		return rr
	}
	// evaluate the contract on the observed execution
	P.replayPin = &replayPin{in: in, run: run}
	u := P.verifyFunction(fn, vc.spec)
	P.replayPin = nil
	if len(u.Errors) > 0 {
		rr.Why = "contract evaluation failed: " + u.Errors[0]
		return rr
	}
	var posts []*Obligation
	for _, ob := range u.VC.obls {
		if ob.Kind == "post" {
			ob.Goal = "(not " + ob.Goal + ")"
			posts = append(posts, ob)
		}
	}
	if len(posts) == 0 {
		rr.Why = "no ensures clause to evaluate"
		return rr
	}
	scratch, _ := os.MkdirTemp("", "govc-replayvc-")
	defer os.RemoveAll(scratch)
	cfg := runCfg{dir: scratch, timeout: 10, seed: 1, order: []string{"z3-new-r0", "z3-new"}, workers: 8}
	if os.Getenv("GOVC_REPLAY_DEBUG") != "" {
		cfg.keep = true
		cfg.dir = fmt.Sprintf("/tmp/replayvc_%d", variation)
	}
	dischargeAll(u.VC.smokes, cfg)
	for _, s := range u.VC.smokes {
		if s.Status != "discharged" {
			rr.Why = "pinned execution is inconsistent with the requires clauses (" + s.Name + ")"
			return rr
		}
	}
	var pres []*Obligation
	for _, ob := range u.VC.obls {
		if ob.Kind == "replay-pre" {
			pres = append(pres, ob)
		}
	}
	dischargeAll(pres, cfg)
	for _, ob := range pres {
		if ob.Status != "discharged" {
			rr.Why = "a requires clause is not established on this input (" + ob.Status + "): " + truncateStr(ob.Src, 120)
			return rr
		}
	}
	dischargeAll(posts, cfg)
	// prefer the clause of the failed obligation
	want := ""
	if i := strings.Index(o.Name, "/post#"); i >= 0 {
		want = o.Name[i+1:]
		if j := strings.Index(want, "@"); j >= 0 {
			want = want[:j]
		}
	}
	var hit *Obligation
	for _, ob := range posts {
		if ob.Status == "discharged" {
			if hit == nil {
				hit = ob
			}
			if want != "" && strings.Contains(ob.Name, "/"+want) {
				hit = ob
				break
			}
		}
	}
	if hit == nil {
		rr.Why = "the real execution on this input is consistent with every ensures clause (spurious for the real code, or the violated clause speaks about state the run does not determine)"
		return rr
	}
	rr.Confirmed = true
	rr.Violated = hit.Name + ": " + hit.Src
	save()
	return rr
}

// replayMain re-runs the saved test of a replay file against the repository: `govc replay -file <json> [-repo /repo]`.
// Exit status 1 when the real code still shows the recorded behaviour (or panics), 0 when it no longer does.
func replayMain(args []string) {
	fs := flag.NewFlagSet("replay", flag.ExitOnError)
	repo := fs.String("repo", "/repo", "repository")
	file := fs.String("file", "", "replay file written by a check")
	fs.Parse(args)
	b, err := os.ReadFile(*file)
	if err != nil {
		fmt.Fprintln(os.Stderr, "replay:", err)
		os.Exit(2)
	}
	var rep struct {
		Property   string        `json:"property"`
		Obligation string        `json:"obligation"`
		Clause     string        `json:"clause"`
		Verdict    string        `json:"verdict"`
		Replay     *replayResult `json:"replay"`
	}
	if err := json.Unmarshal(b, &rep); err != nil {
		fmt.Fprintln(os.Stderr, "replay:", err)
		os.Exit(2)
	}
	fmt.Printf("property=%s obligation=%s verdict=%s\nclause: %s\n", rep.Property, rep.Obligation, rep.Verdict, rep.Clause)
	if rep.Replay == nil || !rep.Replay.Confirmed || rep.Replay.TestFile == "" {
		fmt.Println("no failing input was recorded for this obligation (no-failing-input-found); the replay file carries the solver's output:")
		os.Stdout.Write(b)
		fmt.Println()
		return
	}
	src, err := os.ReadFile(rep.Replay.TestFile)
	if err != nil {
		fmt.Fprintln(os.Stderr, "replay:", err)
		os.Exit(2)
	}
	fmt.Printf("input (from %s):\n%s\n", rep.Replay.Source, rep.Replay.Call)
	run, why := runGenTestIn(filepath.Join(*repo, rep.Replay.PkgDir), string(src))
	if run == nil {
		fmt.Println("the saved test could not be run:", why)
		os.Exit(2)
	}
	now, _ := json.Marshal(map[string]any{"results": run.Results, "params_after": run.Params})
	then, _ := json.Marshal(rep.Replay.Observed)
	if run.Panic != "" {
		fmt.Println("the real code panics:", run.Panic)
		os.Exit(1)
	}
	fmt.Printf("observed now:      %s\nobserved recorded: %s\nviolated clause:   %s\n", now, then, rep.Replay.Violated)
	if string(now) == string(then) {
		fmt.Println("the real code still shows the recorded violating behaviour")
		os.Exit(1)
	}
	fmt.Println("the real code no longer shows the recorded behaviour")
}
