package main

import (
	"fmt"
	"strings"
)

// ---------------------------------------------------------------------------
// Contract language AST
// ---------------------------------------------------------------------------

// TypeExpr is a type written in a contract: Go types (int, string, float64,
// bool, Elements, *DBNode, shared.Elements, []string, map[string]bool) or
// logical types (seq[T], set[T], fmap[K]V, a declared ghost sort).
type TypeExpr struct {
	Kind string // "name", "ptr", "slice", "map", "seq", "set", "fmap"
	Name string // for "name": possibly qualified pkg.Name
	Key  *TypeExpr
	Elem *TypeExpr
}

func (t *TypeExpr) String() string {
	switch t.Kind {
	case "name":
		return t.Name
	case "ptr":
		return "*" + t.Elem.String()
	case "slice":
		return "[]" + t.Elem.String()
	case "map":
		return "map[" + t.Key.String() + "]" + t.Elem.String()
	case "seq":
		return "seq[" + t.Elem.String() + "]"
	case "set":
		return "set[" + t.Elem.String() + "]"
	case "fmap":
		return "fmap[" + t.Key.String() + "]" + t.Elem.String()
	}
	return "?"
}

type Binder struct {
	Name string
	Type *TypeExpr
}

type Expr interface {
	String() string
	Pos() int
}

type (
	Ident struct {
		Name string
		P    int
	}
	// HashIdent is #i, #it, #ord, #n, #coll
	HashIdent struct {
		Name string
		P    int
	}
	IntLit struct {
		V string
		P int
	}
	RealLit struct {
		V string
		P int
	}
	StrLit struct {
		V string // unquoted value
		P int
	}
	CharLit struct {
		V int
		P int
	}
	BoolLit struct {
		V bool
		P int
	}
	NilLit struct{ P int }
	Unary  struct {
		Op string // "!", "-", "*", "&"
		X  Expr
		P  int
	}
	Binary struct {
		Op   string
		X, Y Expr
		P    int
	}
	Select struct {
		X    Expr
		Name string
		P    int
	}
	Index struct {
		X, I Expr
		P    int
	}
	SliceE struct {
		X      Expr
		Lo, Hi Expr // may be nil
		P      int
	}
	Call struct {
		Fun  string // possibly qualified
		Args []Expr
		P    int
	}
	Old struct {
		X     Expr
		Label string // "" = function entry; "loop" = current loop head entry (at(loop, e))
		P     int
	}
	Quant struct {
		Forall   bool
		Vars     []Binder
		Body     Expr
		Triggers [][]Expr
		P        int
	}
	Ite struct {
		C, A, B Expr
		P       int
	}
	Let struct {
		Name string
		Val  Expr
		Body Expr
		P    int
	}
)

func (e *Ident) Pos() int     { return e.P }
func (e *HashIdent) Pos() int { return e.P }
func (e *IntLit) Pos() int    { return e.P }
func (e *RealLit) Pos() int   { return e.P }
func (e *StrLit) Pos() int    { return e.P }
func (e *CharLit) Pos() int   { return e.P }
func (e *BoolLit) Pos() int   { return e.P }
func (e *NilLit) Pos() int    { return e.P }
func (e *Unary) Pos() int     { return e.P }
func (e *Binary) Pos() int    { return e.P }
func (e *Select) Pos() int    { return e.P }
func (e *Index) Pos() int     { return e.P }
func (e *SliceE) Pos() int    { return e.P }
func (e *Call) Pos() int      { return e.P }
func (e *Old) Pos() int       { return e.P }
func (e *Quant) Pos() int     { return e.P }
func (e *Ite) Pos() int       { return e.P }
func (e *Let) Pos() int       { return e.P }

func (e *Ident) String() string     { return e.Name }
func (e *HashIdent) String() string { return "#" + e.Name }
func (e *IntLit) String() string    { return e.V }
func (e *RealLit) String() string   { return e.V }
func (e *StrLit) String() string    { return fmt.Sprintf("%q", e.V) }
func (e *CharLit) String() string   { return fmt.Sprintf("%q", rune(e.V)) }
func (e *BoolLit) String() string   { return fmt.Sprint(e.V) }
func (e *NilLit) String() string    { return "nil" }
func (e *Unary) String() string     { return e.Op + e.X.String() }
func (e *Binary) String() string {
	return "(" + e.X.String() + " " + e.Op + " " + e.Y.String() + ")"
}
func (e *Select) String() string { return e.X.String() + "." + e.Name }
func (e *Index) String() string  { return e.X.String() + "[" + e.I.String() + "]" }
func (e *SliceE) String() string {
	lo, hi := "", ""
	if e.Lo != nil {
		lo = e.Lo.String()
	}
	if e.Hi != nil {
		hi = e.Hi.String()
	}
	return e.X.String() + "[" + lo + ":" + hi + "]"
}
func (e *Call) String() string {
	var as []string
	for _, a := range e.Args {
		as = append(as, a.String())
	}
	return e.Fun + "(" + strings.Join(as, ", ") + ")"
}
func (e *Old) String() string {
	if e.Label != "" {
		return "at(" + e.Label + ", " + e.X.String() + ")"
	}
	return "old(" + e.X.String() + ")"
}
func (e *Quant) String() string {
	q := "exists"
	if e.Forall {
		q = "forall"
	}
	var bs []string
	for _, b := range e.Vars {
		bs = append(bs, b.Name+" "+b.Type.String())
	}
	return "(" + q + " " + strings.Join(bs, ", ") + " :: " + e.Body.String() + ")"
}
func (e *Ite) String() string {
	return "(if " + e.C.String() + " then " + e.A.String() + " else " + e.B.String() + ")"
}
func (e *Let) String() string {
	return "(let " + e.Name + " := " + e.Val.String() + " in " + e.Body.String() + ")"
}

// ---------------------------------------------------------------------------
// Declarations
// ---------------------------------------------------------------------------

// Clause is one requires/ensures/invariant/assert with optional name and tags.
type Clause struct {
	Name  string   // @name
	Props []string // [C01 C05]
	E     Expr
	Free  bool // "free" clause: assumed, never checked (listed as assumption)
	Src   string
}

// Hint is a ghost statement usable in loop headers, ghost points and lemmas.
type Hint struct {
	Kind  string // "assert", "assume", "unfold", "use", "set", "havoc"
	E     Expr   // assert/assume expr; unfold/use: a *Call (possibly wrapped in Quant)
	Name  string // set: ghost var
	Props []string
	Label string
	Src   string
	Try   bool // skip silently when the expression does not translate here
}

type LoopSpec struct {
	Ordinal    int
	Invariants []*Clause
	Decreases  Expr
	Hints      []*Hint // assumed at loop head after the invariants (checked if assert)
	BodyHints  []*Hint // at body start
	PreHints   []*Hint // before the loop is entered (before the invariants are first checked)
	EndHints   []*Hint // at every back edge, before the invariants are re-checked
}

// GhostPoint attaches hints to a program point.
type GhostPoint struct {
	// When: "before" | "after"; What: "call" | "mapupdate" | "store" | "entry" | "return"
	When    string
	What    string
	Ordinal int
	Callee  string // for call: name suffix of the callee
	Hints   []*Hint
}

type FuncSpec struct {
	Key         string // short SSA name, e.g. hranoprovod.(*Elements).Index
	Variant     string // specialisation name ("" = the plain contract)
	Bind        map[string]string
	Returns     []string
	ParamNames  []string // for external functions (assumed contracts)
	Requires    []*Clause
	Ensures     []*Clause
	Modifies    []Expr
	ModAll      bool // modifies *
	Decreases   Expr
	Loops       map[int]*LoopSpec
	Ghosts      []*GhostPoint
	Props       []string
	Assumed     bool // external / trusted: contract is assumed, body not checked
	Inline      bool
	Pure        bool
	Refines     string            // name of a func-type contract this function must satisfy
	DynCalls    map[int]string    // dyncall ordinal -> type contract name
	ParamCons   map[string]string // func-typed parameter -> type contract every actual argument must refine
	CallUses    map[string]string // "callee#k" -> variant name used at that call site
	NoSafety    bool
	NoInherit   bool
	Aspect      bool
	AliasParams []string  // parameter names of the refined type contract (positional aliases)
	Captured    []*Clause // facts about immutable captured variables: checked where the closure is created, assumed at its entry
	File        string
	Line        int
	Lets        []*Hint // named abbreviations: let name := expr (evaluated at entry)
}

type SpecFun struct {
	Name    string
	Params  []Binder
	Result  *TypeExpr
	Body    Expr // nil = uninterpreted
	Macro   bool // pred/macro: expanded inline in the current state
	Opaque  bool // recursive definitions are opaque by default
	Rec     bool
	File    string
	HeapDep bool
}

type Lemma struct {
	Name      string
	Params    []Binder
	Requires  []Expr
	Ensures   []Expr
	Induction string
	Hints     []*Hint
	Props     []string
	Assumed   bool // axiom-lemma (trusted), listed in evidence
	File      string
}

type GhostVar struct {
	Name  string
	Type  *TypeExpr
	Const bool
}

type Axiom struct {
	Name string
	E    Expr
	File string
}

type TypeContract struct {
	Name    string // e.g. parser.ParseCallback or an ad-hoc name
	Params  []string
	Returns []string
	Spec    *FuncSpec
}

type IfaceMethodSpec struct {
	Iface  string // reporter.Reporter
	Method string
	Spec   *FuncSpec
}

type SpecFile struct {
	Sorts   []string
	Ghosts  []*GhostVar
	Funs    []*SpecFun
	Lemmas  []*Lemma
	Axioms  []*Axiom
	Funcs   []*FuncSpec
	Types   []*TypeContract
	Methods []*IfaceMethodSpec
}
