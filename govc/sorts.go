package main

import (
	"fmt"
	"go/types"
	"sort"
	"strings"
)

// ---------------------------------------------------------------------------
// Logical types (Ty): a Go type or a ghost/logical type
// ---------------------------------------------------------------------------

// Ty is the static type of a contract expression.
type Ty struct {
	G    types.Type // Go type (nil for logical types)
	L    string     // logical kind: "seq", "set", "fmap", "sort", "mapval" (dom/val/card record), "tuple"
	Key  *Ty
	Elem *Ty
	Name string // for "sort"
	Tup  []Ty
}

func goTy(t types.Type) Ty { return Ty{G: t} }

func (t Ty) String() string {
	if t.G != nil {
		return t.G.String()
	}
	switch t.L {
	case "seq", "set":
		return t.L + "[" + t.Elem.String() + "]"
	case "fmap":
		return "fmap[" + t.Key.String() + "]" + t.Elem.String()
	case "sort":
		return t.Name
	case "mapval":
		return "mapval[" + t.Key.String() + "]" + t.Elem.String()
	}
	return "?"
}

var (
	tInt    = types.Typ[types.Int]
	tBool   = types.Typ[types.Bool]
	tString = types.Typ[types.String]
	tFloat  = types.Typ[types.Float64]
	tByte   = types.Typ[types.Uint8]
)

// ---------------------------------------------------------------------------
// Sorts: mapping of Go types to SMT sorts, with lazily generated declarations
// ---------------------------------------------------------------------------

type Sorts struct {
	mapKeySort  map[string]string
	decls       []string
	seen        map[string]bool
	structs     []structEntry
	anonCount   int
	strLits     map[string]string
	strOrder    []string
	usesStr     map[string]bool // lazily included string axioms
	typeIDs     map[string]int
	typeIDNames []string
	funcIDs     map[string]int
	ghostSorts  map[string]bool
}

type structEntry struct {
	t    *types.Struct
	name string
	nt   *types.Named
}

func newSorts() *Sorts {
	s := &Sorts{seen: map[string]bool{}, strLits: map[string]string{}, usesStr: map[string]bool{}, typeIDs: map[string]int{}, funcIDs: map[string]int{}, ghostSorts: map[string]bool{}}
	s.decls = append(s.decls,
		"(declare-sort Str 0)",
		"(declare-fun slen (Str) Int)",
		"(declare-fun sat (Str Int) Int)",
		"(declare-const str_empty Str)",
		"(assert (= (slen str_empty) 0))",
		"(assert (forall ((s Str)) (! (>= (slen s) 0) :pattern ((slen s)))))",
		"(assert (forall ((s Str)) (! (=> (= (slen s) 0) (= s str_empty)) :pattern ((slen s)))))",
		"(assert (forall ((s Str) (i Int)) (! (and (<= 0 (sat s i)) (<= (sat s i) 255)) :pattern ((sat s i)))))",
		"(declare-datatypes ((Slice 0)) (((mk_slice (s_arr Int) (s_len Int) (s_cap Int)))))",
		"(declare-datatypes ((Iface 0)) (((mk_iface (i_typ Int) (i_val Int)))))",
	)
	return s
}

func mangle(s string) string {
	var sb strings.Builder
	for _, r := range s {
		switch {
		case r >= 'a' && r <= 'z', r >= 'A' && r <= 'Z', r >= '0' && r <= '9', r == '_':
			sb.WriteRune(r)
		default:
			sb.WriteByte('_')
		}
	}
	return sb.String()
}

func shortPkg(p *types.Package) string {
	if p == nil {
		return ""
	}
	return p.Name()
}

func (s *Sorts) structName(st *types.Struct, nt *types.Named) string {
	for _, e := range s.structs {
		if e.t == st || types.Identical(e.t, st) && (e.nt == nt || (e.nt != nil && nt != nil && e.nt.Obj() == nt.Obj())) {
			return e.name
		}
	}
	var name string
	if nt != nil {
		name = "S_" + mangle(shortPkg(nt.Obj().Pkg())+"_"+nt.Obj().Name())
		// disambiguate equal short names from different packages
		for _, e := range s.structs {
			if e.name == name {
				name = "S_" + mangle(nt.Obj().Pkg().Path()+"_"+nt.Obj().Name())
			}
		}
	} else {
		s.anonCount++
		name = fmt.Sprintf("S_anon%d", s.anonCount)
	}
	s.structs = append(s.structs, structEntry{st, name, nt})
	// declare (fields first)
	var fs []string
	for i := 0; i < st.NumFields(); i++ {
		f := st.Field(i)
		fs = append(fs, fmt.Sprintf("(%s__%s %s)", name, mangle(fieldName(f, i)), s.sortOf(f.Type())))
	}
	if len(fs) == 0 {
		fs = append(fs, fmt.Sprintf("(%s__unit Int)", name))
	}
	s.decls = append(s.decls, fmt.Sprintf("(declare-datatypes ((%s 0)) (((mk_%s %s))))", name, name, strings.Join(fs, " ")))
	return name
}

func fieldName(f *types.Var, i int) string {
	if f.Name() == "_" {
		return fmt.Sprintf("blank%d", i)
	}
	return f.Name()
}

// sortOf returns the SMT sort for a Go type.
func (s *Sorts) sortOf(t types.Type) string {
	switch u := t.(type) {
	case *types.Named:
		if st, ok := u.Underlying().(*types.Struct); ok {
			return s.structName(st, u)
		}
		return s.sortOf(u.Underlying())
	case *types.Alias:
		return s.sortOf(types.Unalias(u))
	case *types.Basic:
		switch {
		case u.Info()&types.IsBoolean != 0:
			return "Bool"
		case u.Info()&types.IsInteger != 0:
			return "Int"
		case u.Info()&types.IsFloat != 0:
			return "Real"
		case u.Info()&types.IsString != 0:
			return "Str"
		case u.Kind() == types.UntypedNil:
			return "Int"
		}
		return "Int"
	case *types.Pointer, *types.Map, *types.Chan, *types.Signature:
		return "Int"
	case *types.Slice:
		return "Slice"
	case *types.Interface:
		return "Iface"
	case *types.Struct:
		return s.structName(u, nil)
	case *types.Array:
		return "(Array Int " + s.sortOf(u.Elem()) + ")"
	case *types.Tuple:
		return "Int"
	case *types.TypeParam:
		return "Int"
	}
	return "Int"
}

func (s *Sorts) tySort(t Ty) string {
	if t.G != nil {
		return s.sortOf(t.G)
	}
	switch t.L {
	case "seq":
		return "(Array Int " + s.tySort(*t.Elem) + ")"
	case "set":
		return "(Array " + s.tySort(*t.Key) + " Bool)"
	case "fmap":
		return "(Array " + s.tySort(*t.Key) + " " + s.tySort(*t.Elem) + ")"
	case "sort":
		return t.Name
	case "mapval":
		return s.mapSort(*t.Key, *t.Elem)
	}
	panic("tySort: " + t.String())
}

// mapSort declares the record sort of a Go map's logical value.
func (s *Sorts) mapSort(k, v Ty) string {
	ks, vs := s.tySort(k), s.tySort(v)
	name := "M_" + mangle(ks) + "_" + mangle(vs)
	if !s.seen[name] {
		s.seen[name] = true
		if s.mapKeySort == nil {
			s.mapKeySort = map[string]string{}
		}
		s.mapKeySort[name] = ks
		s.decls = append(s.decls, fmt.Sprintf("(declare-datatypes ((%s 0)) (((mk_%s (%s__dom (Array %s Bool)) (%s__val (Array %s %s)) (%s__card Int)))))", name, name, name, ks, name, ks, vs, name))
	}
	return name
}

func (s *Sorts) mapSortGo(m *types.Map) string {
	return s.mapSort(goTy(m.Key()), goTy(m.Elem()))
}

// zero value of a Go type
func (s *Sorts) zeroOf(t types.Type) string {
	switch u := t.(type) {
	case *types.Named:
		if st, ok := u.Underlying().(*types.Struct); ok {
			return s.zeroStruct(st, u)
		}
		return s.zeroOf(u.Underlying())
	case *types.Alias:
		return s.zeroOf(types.Unalias(u))
	case *types.Basic:
		switch {
		case u.Info()&types.IsBoolean != 0:
			return "false"
		case u.Info()&types.IsInteger != 0:
			return "0"
		case u.Info()&types.IsFloat != 0:
			return "0.0"
		case u.Info()&types.IsString != 0:
			return "str_empty"
		}
		return "0"
	case *types.Slice:
		return "(mk_slice 0 0 0)"
	case *types.Interface:
		return "(mk_iface 0 0)"
	case *types.Struct:
		return s.zeroStruct(u, nil)
	case *types.Array:
		return "((as const " + s.sortOf(u) + ") " + s.zeroOf(u.Elem()) + ")"
	}
	return "0"
}

func (s *Sorts) zeroStruct(st *types.Struct, nt *types.Named) string {
	name := s.structName(st, nt)
	if st.NumFields() == 0 {
		return "(mk_" + name + " 0)"
	}
	var fs []string
	for i := 0; i < st.NumFields(); i++ {
		fs = append(fs, s.zeroOf(st.Field(i).Type()))
	}
	return "(mk_" + name + " " + strings.Join(fs, " ") + ")"
}

// struct field access helpers
func structOf(t types.Type) (*types.Struct, *types.Named) {
	t = types.Unalias(t)
	if nt, ok := t.(*types.Named); ok {
		if st, ok := nt.Underlying().(*types.Struct); ok {
			return st, nt
		}
		return nil, nil
	}
	if st, ok := t.(*types.Struct); ok {
		return st, nil
	}
	return nil, nil
}

func (s *Sorts) fieldSel(t types.Type, i int, x string) string {
	st, nt := structOf(t)
	name := s.structName(st, nt)
	return fmt.Sprintf("(%s__%s %s)", name, mangle(fieldName(st.Field(i), i)), x)
}

// fieldUpd builds the struct value x with field i replaced by v
func (s *Sorts) fieldUpd(t types.Type, i int, x, v string) string {
	st, nt := structOf(t)
	name := s.structName(st, nt)
	var fs []string
	for j := 0; j < st.NumFields(); j++ {
		if j == i {
			fs = append(fs, v)
		} else {
			fs = append(fs, fmt.Sprintf("(%s__%s %s)", name, mangle(fieldName(st.Field(j), j)), x))
		}
	}
	return "(mk_" + name + " " + strings.Join(fs, " ") + ")"
}

func (s *Sorts) mkStruct(t types.Type, vals []string) string {
	st, nt := structOf(t)
	name := s.structName(st, nt)
	if st.NumFields() == 0 {
		return "(mk_" + name + " 0)"
	}
	return "(mk_" + name + " " + strings.Join(vals, " ") + ")"
}

// string literal constants
func (s *Sorts) strLit(v string) string {
	if v == "" {
		return "str_empty"
	}
	if n, ok := s.strLits[v]; ok {
		return n
	}
	n := fmt.Sprintf("lit_%d", len(s.strLits))
	s.strLits[v] = n
	s.strOrder = append(s.strOrder, v)
	return n
}

func (s *Sorts) strLitDecls() []string {
	var out []string
	for _, v := range s.strOrder {
		n := s.strLits[v]
		out = append(out, fmt.Sprintf("(declare-const %s Str) ; %q", n, truncateStr(v, 40)))
		out = append(out, fmt.Sprintf("(assert (= (slen %s) %d))", n, len(v)))
		if len(v) <= 64 {
			for i := 0; i < len(v); i++ {
				out = append(out, fmt.Sprintf("(assert (= (sat %s %d) %d))", n, i, v[i]))
			}
		} else {
			// long literals (templates, usage texts): bytes are irrelevant; keep them pairwise distinct by an id
			out = append(out, fmt.Sprintf("(assert (= (sat %s 0) %d))", n, v[0]))
		}
	}
	// literals of the same length and first bytes could still be confused; assert distinctness explicitly
	if len(s.strOrder) > 1 {
		var ns []string
		ns = append(ns, "str_empty")
		for _, v := range s.strOrder {
			ns = append(ns, s.strLits[v])
		}
		out = append(out, "(assert (distinct "+strings.Join(ns, " ")+"))")
	}
	return out
}

func truncateStr(s string, n int) string {
	s = strings.ReplaceAll(s, "\n", "\\n")
	if len(s) > n {
		return s[:n] + "..."
	}
	return s
}

// type ids for interface dynamic types
func (s *Sorts) typeID(t types.Type) int {
	k := types.TypeString(t, nil)
	if id, ok := s.typeIDs[k]; ok {
		return id
	}
	id := len(s.typeIDs) + 1
	s.typeIDs[k] = id
	s.typeIDNames = append(s.typeIDNames, k)
	return id
}

func (s *Sorts) funcID(name string) int {
	if id, ok := s.funcIDs[name]; ok {
		return id
	}
	id := len(s.funcIDs) + 1
	s.funcIDs[name] = id
	return id
}

// lazily used string function axioms
var strAxioms = map[string][]string{
	"ssub": {
		"(declare-fun ssub (Str Int Int) Str)",
	},
	"ssub-axioms": {
		"(assert (forall ((s Str) (lo Int) (hi Int)) (! (=> (and (<= 0 lo) (<= lo hi) (<= hi (slen s))) (= (slen (ssub s lo hi)) (- hi lo))) :pattern ((ssub s lo hi)))))",
		"(assert (forall ((s Str) (lo Int) (hi Int) (i Int)) (! (=> (and (<= 0 lo) (<= lo hi) (<= hi (slen s)) (<= 0 i) (< i (- hi lo))) (= (sat (ssub s lo hi) i) (sat s (+ lo i)))) :pattern ((sat (ssub s lo hi) i)))))",
	},
	"sconcat": {
		"(declare-fun sconcat (Str Str) Str)",
		"(assert (forall ((a Str) (b Str)) (! (= (slen (sconcat a b)) (+ (slen a) (slen b))) :pattern ((sconcat a b)))))",
		"(assert (forall ((a Str) (b Str) (i Int)) (! (=> (and (<= 0 i) (< i (+ (slen a) (slen b)))) (= (sat (sconcat a b) i) (ite (< i (slen a)) (sat a i) (sat b (- i (slen a)))))) :pattern ((sat (sconcat a b) i)))))",
	},
	"slt": {
		"(declare-fun slt (Str Str) Bool)",
		"(assert (forall ((a Str)) (! (not (slt a a)) :pattern ((slt a a)))))",
		"(assert (forall ((a Str) (b Str)) (! (or (slt a b) (slt b a) (= a b)) :pattern ((slt a b)))))",
		"(assert (forall ((a Str) (b Str)) (! (not (and (slt a b) (slt b a))) :pattern ((slt a b)))))",
	},
}

func (s *Sorts) useStr(fn string) {
	s.usesStr[fn] = true
}

func (s *Sorts) strFunDecls() []string {
	var ks []string
	for k := range s.usesStr {
		ks = append(ks, k)
	}
	sort.Strings(ks)
	var out []string
	for _, k := range ks {
		out = append(out, strAxioms[k]...)
	}
	return out
}

// litValue: the Go string a literal constant name stands for
func (s *Sorts) litValue(name string) (string, bool) {
	if name == "str_empty" {
		return "", true
	}
	for v, n := range s.strLits {
		if n == name {
			return v, true
		}
	}
	return "", false
}
