package main

// Positional re-binding of renamed variables.
//
// Contracts name parameters, captured variables and locals of the code. A pure RENAME of such a variable makes a
// contract "no longer bind" although nothing changed. /verif/tools/names.json records, for every function under
// contract, the names (and types) of its parameters, captured variables and named locals in declaration order, taken
// from the tree the contracts were written against (`govc names`). When a contract uses a name the current function
// does not have, and the current function has the same number of variables of that kind and type, the name is bound
// to the variable at the SAME POSITION. Anything else (a variable added, removed, moved to another function, or a
// name that now denotes something else) is left to fail as before. Every re-binding is listed in the evidence.

import (
	"encoding/json"
	"fmt"
	"go/types"
	"os"
	"sort"

	"golang.org/x/tools/go/ssa"
)

type fnNames struct {
	Params []string    `json:"params"`
	Free   []string    `json:"free,omitempty"`
	Locals [][2]string `json:"locals,omitempty"` // name, type
}

func localsOf(fn *ssa.Function) [][2]string {
	var out [][2]string
	type item struct {
		pos  int
		name string
		typ  string
		bi   int
		ii   int
	}
	var items []item
	for bi, b := range fn.Blocks {
		for ii, in := range b.Instrs {
			a, ok := in.(*ssa.Alloc)
			if !ok || a.Comment == "" {
				continue
			}
			switch a.Comment {
			case "complit", "varargs", "slicelit", "makeslice", "new", "range", "rangeindex", "rangeiter":
				continue
			}
			items = append(items, item{int(a.Pos()), a.Comment, types.TypeString(a.Type().(*types.Pointer).Elem(), nil), bi, ii})
		}
	}
	sort.SliceStable(items, func(i, j int) bool {
		if items[i].pos != items[j].pos && items[i].pos > 0 && items[j].pos > 0 {
			return items[i].pos < items[j].pos
		}
		if items[i].bi != items[j].bi {
			return items[i].bi < items[j].bi
		}
		return items[i].ii < items[j].ii
	})
	for _, it := range items {
		out = append(out, [2]string{it.name, it.typ})
	}
	return out
}

func namesOf(fn *ssa.Function) fnNames {
	var n fnNames
	for _, p := range fn.Params {
		n.Params = append(n.Params, p.Name())
	}
	for _, f := range fn.FreeVars {
		n.Free = append(n.Free, f.Name())
	}
	n.Locals = localsOf(fn)
	return n
}

// namesMain writes the names table of every function under contract: `govc names > /verif/tools/names.json`
func namesMain(args []string) {
	repo := "/repo"
	if len(args) > 1 && args[0] == "-repo" {
		repo = args[1]
	}
	P, err := loadProg(repo, "/verif/assumed")
	if err != nil {
		fmt.Fprintln(os.Stderr, "names:", err)
		os.Exit(2)
	}
	out := map[string]fnNames{}
	for key, fn := range P.fns {
		if len(P.specs[key]) == 0 {
			continue
		}
		out[key] = namesOf(fn)
	}
	b, _ := json.MarshalIndent(out, "", " ")
	os.Stdout.Write(b)
	fmt.Println()
}

func (P *Prog) loadNames(file string) {
	P.oldNames = map[string]fnNames{}
	b, err := os.ReadFile(file)
	if err != nil {
		return
	}
	json.Unmarshal(b, &P.oldNames)
}

// renameMap: old name -> current name, for the variables of fn whose name changed while kind, type and position stayed
func (P *Prog) renameMap(fn *ssa.Function) map[string]string {
	old, ok := P.oldNames[P.fnKeys[fn]]
	if !ok {
		return nil
	}
	cur := namesOf(fn)
	have := map[string]bool{}
	for _, n := range cur.Params {
		have[n] = true
	}
	for _, n := range cur.Free {
		have[n] = true
	}
	for _, l := range cur.Locals {
		have[l[0]] = true
	}
	m := map[string]string{}
	pair := func(o, c []string) {
		if len(o) != len(c) {
			return
		}
		for i := range o {
			if o[i] != c[i] && !have[o[i]] && o[i] != "" && c[i] != "" {
				m[o[i]] = c[i]
			}
		}
	}
	pair(old.Params, cur.Params)
	pair(old.Free, cur.Free)
	// locals: position among the locals of the same type
	byType := func(ls [][2]string) map[string][]string {
		r := map[string][]string{}
		for _, l := range ls {
			r[l[1]] = append(r[l[1]], l[0])
		}
		return r
	}
	ot, ct := byType(old.Locals), byType(cur.Locals)
	for t, on := range ot {
		pair(on, ct[t])
	}
	if len(m) == 0 {
		return nil
	}
	return m
}
