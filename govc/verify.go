package main

import (
	"fmt"
	"go/types"
	"os"
	"strings"

	"golang.org/x/tools/go/ssa"
)

// ---------------------------------------------------------------------------
// verification of one function against one contract (or with no contract: safety only)
// ---------------------------------------------------------------------------

type Unit struct {
	Name   string
	Kind   string // "func", "lemma"
	Fn     *ssa.Function
	Spec   *FuncSpec
	Lemma  *Lemma
	VC     *VC
	Props  []string
	Errors []string
}

func (P *Prog) effectiveSpec(fn *ssa.Function, spec *FuncSpec) *FuncSpec {
	return spec
}

func (vc *VC) initMaps() {
	vc.lemmasUsed = map[string]bool{}
	vc.specsUsed = map[string]bool{}
	vc.unmodelled = map[string]bool{}
	vc.inlined = map[string]bool{}
	vc.specUsed = map[string]bool{}
}

func (P *Prog) verifyFunction(fn *ssa.Function, spec *FuncSpec) (ru *Unit) {
	key := P.fnKeys[fn]
	name := key
	if spec != nil && spec.Variant != "" {
		name += "[" + spec.Variant + "]"
	}
	vc := newVC(P, name, pkgOf(fn))
	vc.initMaps()
	u := &Unit{Name: name, Kind: "func", Fn: fn, Spec: spec, VC: vc}
	ru = u
	if spec != nil {
		u.Props = spec.Props
		vc.unitProps = spec.Props
	}
	defer func() {
		if r := recover(); r != nil {
			if se, ok := r.(specErr); ok {
				vc.specErrors = append(vc.specErrors, name+": "+se.msg)
				u.Errors = append(u.Errors, vc.specErrors...)
				return
			}
			if os.Getenv("GOVC_PANIC") != "" {
				panic(r)
			}
			// an internal error of the generator on this function: the function cannot be decided (reported like a
			// contract that no longer binds), the other functions still are
			vc.specErrors = append(vc.specErrors, fmt.Sprintf("%s: internal error of the condition generator: %v", name, r))
			u.Errors = append(u.Errors, vc.specErrors...)
		}
	}()
	fr := vc.newFrame(fn, spec, nil)
	vc.fn, vc.spec, vc.topFr = fn, spec, fr
	st := &State{locals: map[*Cell]string{}, heaps: map[string]string{}, ghosts: map[string]string{}}
	st.alloc = vc.fresh("alloc0", "Int")
	vc.assume("(> " + st.alloc + " 0)")
	vc.entryAlloc = st.alloc
	// parameters
	for _, p := range fn.Params {
		t := vc.fresh("p_"+p.Name(), vc.S.sortOf(p.Type()))
		vc.assumeTypeFacts(st, "", p.Type(), t)
		v := Val{T: p.Type(), S: t}
		fr.regs[p] = v
		fr.names[p.Name()] = v
	}
	for _, fv := range fn.FreeVars {
		t := vc.fresh("fv_"+fv.Name(), "Int")
		vc.assume("(and (< 0 " + t + ") (< " + t + " " + st.alloc + "))")
		pt := fv.Type().(*types.Pointer)
		fr.regs[fv] = Val{T: fv.Type(), S: t, A: &Addr{Kind: aHeap, Ref: t, BaseT: pt.Elem()}}
	}
	// the closure value itself ("self"): its environment holds the captured cells
	if len(fn.FreeVars) > 0 || fn.Parent() != nil {
		self := vc.fresh("self", "Int")
		vc.assume("(and (< 0 " + self + ") (< " + self + " " + st.alloc + "))")
		for i, fv := range fn.FreeVars {
			vc.useCloEnv(i)
			vc.assume(fmt.Sprintf("(= (clo_env_%d %s) %s)", i, self, fr.regs[fv].S))
		}
		fr.names["self"] = Val{T: fn.Type(), S: self, Fn: fn}
	}
	// distinct captured cells
	if len(fn.FreeVars) > 1 {
		var ts []string
		for _, fv := range fn.FreeVars {
			ts = append(ts, fr.regs[fv].S)
		}
		vc.assume("(distinct " + strings.Join(ts, " ") + ")")
	}
	// specialisation bindings: func-typed parameter -> closure function
	if spec != nil {
		for pn, fk := range spec.Bind {
			f := P.fns[fk]
			if f == nil {
				vc.specErrors = append(vc.specErrors, fmt.Sprintf("%s: bind: unknown function %s", name, fk))
				continue
			}
			fr.bind[pn] = f
		}
	}
	if spec != nil {
		for i, pn := range spec.AliasParams {
			if i < len(fn.Params) {
				fr.names[pn] = fr.regs[fn.Params[i]]
			}
		}
	}
	if P.replayPin != nil {
		vc.replayPinInputs(fr, st, P.replayPin)
	}
	env := &Env{vc: vc, fr: fr, st: st, old: st, names: fr.names, hash: map[string]Val{}, paramsFirst: true}
	if spec != nil {
		for _, l := range spec.Lets {
			l := l
			ok := true
			var v Val
			func() {
				defer func() {
					if r := recover(); r != nil {
						if se, is := r.(specErr); is {
							vc.specErrors = append(vc.specErrors, name+": let "+l.Name+": "+se.msg)
							ok = false
							return
						}
						panic(r)
					}
				}()
				v = env.trVal(l.E)
			}()
			if ok {
				if v.S != "" {
					v.S = vc.define("let_"+l.Name, vc.S.tySort(v.ty()), v.S)
				}
				fr.names[l.Name] = v
			}
		}
		for _, r := range spec.Requires {
			r := r
			g := vc.safeTr(fr, func() string { return env.trBool(r.E) }, r.Src)
			if vc.replayMode {
				// replay: the requires clause must be PROVED on the concrete input
				vc.oblige(fmt.Sprintf("%s/replay-pre#%d", name, len(vc.obls)+1), "replay-pre", nil, "true", g, r.Src)
			}
			vc.assume(g)
			if r.Free {
				vc.trusted["free requires of "+name+": "+r.Src] = true
			}
		}
		for _, r := range spec.Captured {
			r := r
			g := vc.safeTr(fr, func() string { return env.trBool(r.E) }, r.Src)
			vc.assume(g)
		}
	}
	fr.entry = st.clone()
	if spec != nil && spec.Aspect {
		// safety and frame conditions of the body are proved once, by the plain contract
		cp := *spec
		cp.NoSafety = true
		spec = &cp
		fr.spec = spec
		fr.frameAssumed = true
	}
	if spec != nil {
		vc.smoke(name+"/smoke/entry", spec.Props, "true")
	}
	if spec != nil && !spec.Assumed {
		fr.modCheck = !spec.ModAll
		if fr.modCheck {
			func() {
				defer func() {
					if r := recover(); r != nil {
						if se, is := r.(specErr); is {
							vc.specErrors = append(vc.specErrors, name+": modifies: "+se.msg)
							return
						}
						panic(r)
					}
				}()
				fr.modTargets = vc.modTargets(env, spec)
			}()
		}
		if spec.Decreases != nil {
			d := vc.safeTr(fr, func() string { s, _ := env.tr(spec.Decreases); return s }, "decreases")
			fr.decEntry = vc.define("dec_entry", "Int", d)
		}
	}
	if P.replayPin != nil {
		vc.replayBody(fr, st, P.replayPin)
		u.Errors = append(u.Errors, vc.specErrors...)
		return u
	}
	vc.ghostPoint(fr, st, "true", "at", "entry", 1, "")
	vc.execBody(fr, st, "true")
	u.Errors = append(u.Errors, vc.specErrors...)
	return u
}

func (vc *VC) execReturn(fr *Frame, st *State, reach string, vals []Val) {
	if fr.inlined {
		g := vc.define("ret_guard", "Bool", reach)
		fr.retStates = append(fr.retStates, retEdge{g, st.clone(), vals})
		return
	}
	spec := fr.spec
	if spec == nil {
		return
	}
	rn0 := vc.resultNames(spec, fr.fn, len(vals))
	saved := fr.names
	fr.names = map[string]Val{}
	for k, v := range saved {
		fr.names[k] = v
	}
	for i, v := range vals {
		if i < len(rn0) {
			if _, taken := fr.names[rn0[i]]; !taken {
				fr.names[rn0[i]] = v
			}
		}
	}
	if _, taken := fr.names["result"]; !taken && len(vals) == 1 && len(fr.byName["result"]) == 0 {
		fr.names["result"] = vals[0]
	}
	vc.ghostPoint(fr, st, reach, "before", "return", 1, "")
	fr.names = saved
	vc.smoke(fr.oblName(fmt.Sprintf("smoke/return#%d", fr.count("smoke-ret"))), fr.defProps(), reach)
	names := map[string]Val{}
	for k, v := range fr.names {
		names[k] = v
	}
	rn := vc.resultNames(spec, fr.fn, len(vals))
	for i, v := range vals {
		if i < len(rn) {
			names[rn[i]] = v
		}
	}
	if len(vals) == 1 {
		names["result"] = vals[0]
	}
	env := &Env{vc: vc, fr: fr, st: st, old: fr.entry, names: names, hash: map[string]Val{}, paramsFirst: true, loopAt: map[string]*State{}}
	for _, li := range fr.loopList {
		if li.preState != nil {
			env.loopAt[fmt.Sprintf("pre%d", li.ordinal)] = li.preState
		}
	}
	nret := fr.count("return")
	for i, c := range spec.Ensures {
		if c.Free {
			if !strings.Contains(c.Src, "[proved in aspect ") {
				vc.trusted["free ensures of "+fr.key+": "+c.Src] = true
			}
			continue
		}
		c := c
		name := c.Name
		if name == "" {
			name = fmt.Sprint(i + 1)
		}
		g := vc.safeTr(fr, func() string { return env.trBool(c.E) }, c.Src)
		on := fr.oblName("post#" + name)
		if nret > 1 {
			on += fmt.Sprintf("@ret%d", nret)
		}
		vc.oblige(on, "post", clauseProps(c.Props, fr.defProps()), reach, g, c.Src)
	}
}

// ---------------------------------------------------------------------------
// lemmas
// ---------------------------------------------------------------------------

func (P *Prog) verifyLemma(l *Lemma) *Unit {
	vc := newVC(P, "lemma/"+l.Name, P.pkgByName["hranoprovod"])
	vc.initMaps()
	vc.unitProps = l.Props
	u := &Unit{Name: "lemma/" + l.Name, Kind: "lemma", Lemma: l, VC: vc, Props: l.Props}
	if l.Assumed {
		return u
	}
	defer func() {
		if r := recover(); r != nil {
			if se, ok := r.(specErr); ok {
				u.Errors = append(u.Errors, "lemma "+l.Name+": "+se.msg)
				return
			}
			panic(r)
		}
	}()
	st := &State{locals: map[*Cell]string{}, heaps: map[string]string{}, ghosts: map[string]string{}, alloc: "0"}
	env := &Env{vc: vc, pure: true, st: st}
	var kTerm string
	for _, p := range l.Params {
		ty := vc.tyOfTypeExprL(p.Type, true)
		c := vc.fresh("l_"+p.Name, vc.S.tySort(ty))
		bv := Val{S: c}
		if ty.G != nil {
			bv.T = ty.G
		} else {
			t2 := ty
			bv.Ty = &t2
		}
		env = env.push(p.Name, bv)
		if p.Name == l.Induction {
			kTerm = c
		}
	}
	if l.Induction != "" && kTerm == "" {
		u.Errors = append(u.Errors, "lemma "+l.Name+": induction variable is not a parameter")
		return u
	}
	conj := func(es []Expr, e *Env) string {
		var ss []string
		for _, x := range es {
			ss = append(ss, e.trBool(x))
		}
		if len(ss) == 0 {
			return "true"
		}
		if len(ss) == 1 {
			return ss[0]
		}
		return "(and " + strings.Join(ss, " ") + ")"
	}
	vc.assume(conj(l.Requires, env))
	if l.Induction != "" {
		// induction hypothesis: the lemma for k-1 and all values of the other parameters
		ih := &Env{vc: vc, pure: true, st: st}
		var decl []string
		for _, p := range l.Params {
			ty := vc.tyOfTypeExprL(p.Type, true)
			if p.Name == l.Induction {
				ih = ih.push(p.Name, Val{T: tInt, S: "(- " + kTerm + " 1)"})
				continue
			}
			vc.nfresh++
			vn := fmt.Sprintf("ih_%s!%d", mangle(p.Name), vc.nfresh)
			decl = append(decl, "("+vn+" "+vc.S.tySort(ty)+")")
			bv := Val{S: vn}
			if ty.G != nil {
				bv.T = ty.G
			} else {
				t2 := ty
				bv.Ty = &t2
			}
			ih = ih.push(p.Name, bv)
		}
		body := "(=> " + conj(l.Requires, ih) + " " + conj(l.Ensures, ih) + ")"
		if len(decl) > 0 {
			body = "(forall (" + strings.Join(decl, " ") + ") " + body + ")"
		}
		vc.assume("(=> (> " + kTerm + " 0) " + body + ")")
	}
	vc.runHints(nil, st, "true", l.Hints, env, "lemma")
	for i, e := range l.Ensures {
		g := env.trBool(e)
		vc.oblige(fmt.Sprintf("lemma/%s/ens%d", l.Name, i+1), "lemma", l.Props, "true", g, e.String())
	}
	u.Errors = append(u.Errors, vc.specErrors...)
	return u
}
