package main

import (
	"fmt"
	"strconv"
	"strings"
	"unicode"
)

// ---------------------------------------------------------------------------
// Lexer
// ---------------------------------------------------------------------------

type tok struct {
	k   string // "id", "int", "real", "str", "char", "op", "eof"
	s   string
	pos int
	ln  int
}

type lexer struct {
	src  string
	file string
	toks []tok
}

var ops = []string{"<==>", "==>", "==", "!=", "<=", ">=", "&&", "||", "::", ":=",
	"(", ")", "[", "]", "{", "}", ",", ".", ":", ";", "+", "-", "*", "/", "!", "<", ">", "&", "#", "@", "?", "=", "%"}

func lex(file, src string, baseLine int) ([]tok, error) {
	var toks []tok
	i := 0
	ln := baseLine
	for i < len(src) {
		c := src[i]
		if c == '\n' {
			ln++
			i++
			continue
		}
		if c == ' ' || c == '\t' || c == '\r' {
			i++
			continue
		}
		if c == '/' && i+1 < len(src) && src[i+1] == '/' {
			for i < len(src) && src[i] != '\n' {
				i++
			}
			continue
		}
		if unicode.IsLetter(rune(c)) || c == '_' {
			j := i
			for j < len(src) && (unicode.IsLetter(rune(src[j])) || unicode.IsDigit(rune(src[j])) || src[j] == '_' || src[j] == '$') {
				j++
			}
			toks = append(toks, tok{"id", src[i:j], i, ln})
			i = j
			continue
		}
		if unicode.IsDigit(rune(c)) {
			j := i
			isReal := false
			for j < len(src) && (unicode.IsDigit(rune(src[j])) || (src[j] == '.' && j+1 < len(src) && unicode.IsDigit(rune(src[j+1])))) {
				if src[j] == '.' {
					isReal = true
				}
				j++
			}
			k := "int"
			if isReal {
				k = "real"
			}
			toks = append(toks, tok{k, src[i:j], i, ln})
			i = j
			continue
		}
		if c == '"' {
			j := i + 1
			for j < len(src) && src[j] != '"' {
				if src[j] == '\\' {
					j++
				}
				j++
			}
			if j >= len(src) {
				return nil, fmt.Errorf("%s:%d: unterminated string", file, ln)
			}
			s, err := strconv.Unquote(src[i : j+1])
			if err != nil {
				return nil, fmt.Errorf("%s:%d: bad string %s", file, ln, src[i:j+1])
			}
			toks = append(toks, tok{"str", s, i, ln})
			i = j + 1
			continue
		}
		if c == '\'' {
			j := i + 1
			for j < len(src) && src[j] != '\'' {
				if src[j] == '\\' {
					j++
				}
				j++
			}
			s, err := strconv.Unquote(src[i : j+1])
			if err != nil || len(s) == 0 {
				return nil, fmt.Errorf("%s:%d: bad char %s", file, ln, src[i:j+1])
			}
			toks = append(toks, tok{"char", strconv.Itoa(int(s[0])), i, ln})
			i = j + 1
			continue
		}
		matched := false
		for _, o := range ops {
			if strings.HasPrefix(src[i:], o) {
				toks = append(toks, tok{"op", o, i, ln})
				i += len(o)
				matched = true
				break
			}
		}
		if !matched {
			return nil, fmt.Errorf("%s:%d: unexpected character %q", file, ln, c)
		}
	}
	toks = append(toks, tok{"eof", "", len(src), ln})
	return toks, nil
}

// ---------------------------------------------------------------------------
// Parser
// ---------------------------------------------------------------------------

type parser struct {
	toks []tok
	i    int
	file string
	src  string
}

type parseErr struct{ msg string }

func (p *parser) fail(format string, a ...any) {
	t := p.toks[p.i]
	panic(parseErr{fmt.Sprintf("%s:%d: %s (at %q)", p.file, t.ln, fmt.Sprintf(format, a...), t.s)})
}

func (p *parser) peek() tok { return p.toks[p.i] }
func (p *parser) next() tok {
	t := p.toks[p.i]
	if p.i < len(p.toks)-1 {
		p.i++
	}
	return t
}
func (p *parser) isOp(s string) bool { t := p.peek(); return t.k == "op" && t.s == s }
func (p *parser) isID(s string) bool { t := p.peek(); return t.k == "id" && t.s == s }
func (p *parser) acceptOp(s string) bool {
	if p.isOp(s) {
		p.next()
		return true
	}
	return false
}
func (p *parser) acceptID(s string) bool {
	if p.isID(s) {
		p.next()
		return true
	}
	return false
}
func (p *parser) expectOp(s string) {
	if !p.acceptOp(s) {
		p.fail("expected %q", s)
	}
}
func (p *parser) ident() string {
	t := p.peek()
	if t.k != "id" {
		p.fail("expected identifier")
	}
	p.next()
	return t.s
}

// qualified identifier a.b.c (used for names of functions and types)
func (p *parser) qualIdent() string {
	s := p.ident()
	for p.isOp(".") && p.toks[p.i+1].k == "id" {
		p.next()
		s += "." + p.ident()
	}
	return s
}

var clauseKeywords = map[string]bool{
	"requires": true, "ensures": true, "modifies": true, "decreases": true, "loop": true, "ghost": true,
	"props": true, "inline": true, "pure": true, "assumed": true, "refines": true, "dyncall": true, "funcparam": true,
	"calluse": true, "bind": true, "free": true, "nosafety": true, "let": true, "invariant": true,
	"func": true, "extern": true, "sort": true, "const": true, "fun": true, "pred": true, "lemma": true,
	"axiom": true, "type": true, "macro": true, "method": true, "returns": true, "params": true, "variant": true,
	"induction": true, "assert": true, "assume": true, "unfold": true, "tryunfold": true, "use": true, "useif": true, "set": true,
	"body": true, "havoc": true, "captured": true, "defines": true, "standalone": true, "aspect": true,
}

func (p *parser) parseType() *TypeExpr {
	if p.acceptOp("*") {
		return &TypeExpr{Kind: "ptr", Elem: p.parseType()}
	}
	if p.isOp("[") {
		p.next()
		p.expectOp("]")
		return &TypeExpr{Kind: "slice", Elem: p.parseType()}
	}
	name := p.ident()
	switch name {
	case "map", "fmap":
		p.expectOp("[")
		k := p.parseType()
		p.expectOp("]")
		v := p.parseType()
		return &TypeExpr{Kind: name, Key: k, Elem: v}
	case "seq", "set":
		p.expectOp("[")
		e := p.parseType()
		p.expectOp("]")
		return &TypeExpr{Kind: name, Elem: e}
	}
	for p.isOp(".") && p.toks[p.i+1].k == "id" {
		p.next()
		name += "." + p.ident()
	}
	return &TypeExpr{Kind: "name", Name: name}
}

// binders: a, b T, c U
func (p *parser) parseBinders(end string) []Binder {
	var out []Binder
	for !p.isOp(end) {
		var names []string
		names = append(names, p.ident())
		for p.acceptOp(",") {
			names = append(names, p.ident())
		}
		t := p.parseType()
		for _, n := range names {
			out = append(out, Binder{n, t})
		}
		if !p.acceptOp(",") {
			break
		}
	}
	return out
}

// ---- expressions

func (p *parser) parseExpr() Expr {
	if p.isID("forall") || p.isID("exists") {
		t := p.next()
		q := &Quant{Forall: t.s == "forall", P: t.pos}
		q.Vars = p.parseBinders("::")
		p.expectOp("::")
		for p.isOp("{") {
			p.next()
			var tr []Expr
			tr = append(tr, p.parseExpr())
			for p.acceptOp(",") {
				tr = append(tr, p.parseExpr())
			}
			p.expectOp("}")
			q.Triggers = append(q.Triggers, tr)
		}
		q.Body = p.parseExpr()
		return q
	}
	if p.isID("let") && p.toks[p.i+1].k == "id" && p.toks[p.i+2].s == ":=" {
		t := p.next()
		name := p.ident()
		p.expectOp(":=")
		v := p.parseAdd()
		if !p.acceptID("in") {
			p.fail("expected 'in'")
		}
		b := p.parseExpr()
		return &Let{name, v, b, t.pos}
	}
	return p.parseIff()
}

func (p *parser) parseIff() Expr {
	x := p.parseImpl()
	for p.isOp("<==>") {
		t := p.next()
		y := p.parseImpl()
		x = &Binary{"<==>", x, y, t.pos}
	}
	return x
}

func (p *parser) parseImpl() Expr {
	x := p.parseOr()
	if p.isOp("==>") {
		t := p.next()
		var y Expr
		if p.isID("forall") || p.isID("exists") {
			y = p.parseExpr()
		} else {
			y = p.parseImpl()
		}
		return &Binary{"==>", x, y, t.pos}
	}
	return x
}

func (p *parser) parseOr() Expr {
	x := p.parseAnd()
	for p.isOp("||") {
		t := p.next()
		y := p.parseAnd()
		x = &Binary{"||", x, y, t.pos}
	}
	return x
}

func (p *parser) parseAnd() Expr {
	x := p.parseCmp()
	for p.isOp("&&") {
		t := p.next()
		var y Expr
		if p.isID("forall") || p.isID("exists") {
			y = p.parseExpr()
		} else {
			y = p.parseCmp()
		}
		x = &Binary{"&&", x, y, t.pos}
	}
	return x
}

func (p *parser) parseCmp() Expr {
	x := p.parseAdd()
	t := p.peek()
	if t.k == "op" {
		switch t.s {
		case "==", "!=", "<", "<=", ">", ">=":
			p.next()
			y := p.parseAdd()
			return &Binary{t.s, x, y, t.pos}
		}
	}
	if t.k == "id" && t.s == "in" {
		p.next()
		y := p.parseAdd()
		return &Binary{"in", x, y, t.pos}
	}
	return x
}

func (p *parser) parseAdd() Expr {
	x := p.parseMul()
	for p.isOp("+") || p.isOp("-") {
		t := p.next()
		y := p.parseMul()
		x = &Binary{t.s, x, y, t.pos}
	}
	return x
}

func (p *parser) parseMul() Expr {
	x := p.parseUnary()
	for p.isOp("*") || p.isOp("/") || p.isOp("%") {
		t := p.next()
		y := p.parseUnary()
		x = &Binary{t.s, x, y, t.pos}
	}
	return x
}

func (p *parser) parseUnary() Expr {
	t := p.peek()
	if t.k == "op" && (t.s == "!" || t.s == "-" || t.s == "*" || t.s == "&") {
		p.next()
		x := p.parseUnary()
		return &Unary{t.s, x, t.pos}
	}
	return p.parsePostfix()
}

func (p *parser) parsePostfix() Expr {
	x := p.parsePrimary()
	for {
		if p.isOp(".") && p.toks[p.i+1].k == "id" {
			t := p.next()
			name := p.ident()
			// qualified call pkg.Fun(...)
			if id, ok := x.(*Ident); ok && p.isOp("(") {
				p.next()
				args := p.parseArgs()
				x = &Call{id.Name + "." + name, args, t.pos}
				continue
			}
			x = &Select{x, name, t.pos}
			continue
		}
		if p.isOp("[") {
			t := p.next()
			if p.acceptOp(":") {
				var hi Expr
				if !p.isOp("]") {
					hi = p.parseExpr()
				}
				p.expectOp("]")
				x = &SliceE{x, nil, hi, t.pos}
				continue
			}
			i := p.parseExpr()
			if p.acceptOp(":") {
				var hi Expr
				if !p.isOp("]") {
					hi = p.parseExpr()
				}
				p.expectOp("]")
				x = &SliceE{x, i, hi, t.pos}
				continue
			}
			p.expectOp("]")
			x = &Index{x, i, t.pos}
			continue
		}
		return x
	}
}

func (p *parser) parseArgs() []Expr {
	var args []Expr
	for !p.isOp(")") {
		args = append(args, p.parseExpr())
		if !p.acceptOp(",") {
			break
		}
	}
	p.expectOp(")")
	return args
}

func (p *parser) parsePrimary() Expr {
	t := p.peek()
	switch t.k {
	case "int":
		p.next()
		return &IntLit{t.s, t.pos}
	case "real":
		p.next()
		return &RealLit{t.s, t.pos}
	case "str":
		p.next()
		return &StrLit{t.s, t.pos}
	case "char":
		p.next()
		v, _ := strconv.Atoi(t.s)
		return &CharLit{v, t.pos}
	case "op":
		if t.s == "(" {
			p.next()
			e := p.parseExpr()
			p.expectOp(")")
			return e
		}
		if t.s == "#" {
			p.next()
			return &HashIdent{p.ident(), t.pos}
		}
	case "id":
		switch t.s {
		case "true", "false":
			p.next()
			return &BoolLit{t.s == "true", t.pos}
		case "nil":
			p.next()
			return &NilLit{t.pos}
		case "old":
			p.next()
			p.expectOp("(")
			e := p.parseExpr()
			p.expectOp(")")
			return &Old{e, "", t.pos}
		case "at":
			if p.toks[p.i+1].s == "(" {
				p.next()
				p.expectOp("(")
				lbl := p.ident()
				if lbl == "loop" && p.peek().k == "int" {
					lbl += p.next().s
				}
				p.expectOp(",")
				e := p.parseExpr()
				p.expectOp(")")
				return &Old{e, lbl, t.pos}
			}
		case "if":
			p.next()
			c := p.parseExpr()
			if !p.acceptID("then") {
				p.fail("expected 'then'")
			}
			a := p.parseExpr()
			if !p.acceptID("else") {
				p.fail("expected 'else'")
			}
			b := p.parseExpr()
			return &Ite{c, a, b, t.pos}
		}
		p.next()
		if p.isOp("(") {
			p.next()
			args := p.parseArgs()
			return &Call{t.s, args, t.pos}
		}
		return &Ident{t.s, t.pos}
	}
	p.fail("unexpected token in expression")
	return nil
}

// ---- clauses

func (p *parser) parseTags() (name string, props []string) {
	for {
		if p.isOp("@") {
			p.next()
			name = p.ident()
			for p.isOp("-") && p.toks[p.i+1].k == "id" {
				p.next()
				name += "-" + p.ident()
			}
			continue
		}
		if p.isOp("[") {
			p.next()
			for !p.isOp("]") {
				props = append(props, p.ident())
				p.acceptOp(",")
			}
			p.expectOp("]")
			continue
		}
		return
	}
}

func (p *parser) srcOf(from int) string {
	to := p.toks[p.i].pos
	if from > len(p.src) || to > len(p.src) || from > to {
		return ""
	}
	s := p.src[from:to]
	// drop trailing comment lines that precede the next clause
	var keep []string
	for _, ln := range strings.Split(s, "\n") {
		if i := strings.Index(ln, "//"); i >= 0 {
			ln = ln[:i]
		}
		keep = append(keep, ln)
	}
	return strings.Join(strings.Fields(strings.Join(keep, " ")), " ")
}

func (p *parser) parseClause() *Clause {
	name, props := p.parseTags()
	from := p.peek().pos
	e := p.parseExpr()
	p.acceptOp(";")
	return &Clause{Name: name, Props: props, E: e, Src: p.srcOf(from)}
}

func (p *parser) parseHint() *Hint {
	t := p.next()
	h := &Hint{Kind: t.s}
	name, props := p.parseTags()
	h.Label, h.Props = name, props
	from := p.peek().pos
	switch t.s {
	case "assert", "lassert", "assume", "unfold", "use", "useif":
		h.E = p.parseExpr()
	case "tryunfold":
		// as unfold, but skipped where the expression's variables are not in scope (a return reached by several paths)
		h.Kind = "unfold"
		h.Try = true
		h.E = p.parseExpr()
	case "forget":
		// forget call: the facts assumed from the most recent call's contract are visible only inside this block
		h.Name = p.ident()
	case "set", "let":
		h.Name = p.ident()
		p.expectOp(":=")
		h.E = p.parseExpr()
	case "havoc":
		h.Name = p.ident()
	default:
		p.i--
		p.fail("expected hint (assert/assume/unfold/use/set/havoc)")
	}
	h.Src = p.srcOf(from)
	p.acceptOp(";")
	return h
}

func isHintKw(s string) bool {
	return s == "assert" || s == "assume" || s == "unfold" || s == "use" || s == "useif" || s == "set" || s == "havoc" || s == "let" || s == "forget" || s == "lassert" || s == "tryunfold"
}

func (p *parser) parseHintBlock() []*Hint {
	p.expectOp("{")
	var hs []*Hint
	for !p.isOp("}") {
		hs = append(hs, p.parseHint())
	}
	p.expectOp("}")
	return hs
}

func (p *parser) parseIdentList() []string {
	var out []string
	p.expectOp("(")
	for !p.isOp(")") {
		out = append(out, p.ident())
		// optional type after the name (ignored; for readability)
		if !p.isOp(",") && !p.isOp(")") {
			p.parseType()
		}
		p.acceptOp(",")
	}
	p.expectOp(")")
	return out
}

// parseFuncKey parses names such as  (*Elements).Index  Elements.Len  resolveNode
// pkg.Func$1  pkg.(*T).M  strings.Trim
func (p *parser) parsePath() string {
	var sb strings.Builder
	for {
		t := p.peek()
		if t.k == "id" && (!clauseKeywords[t.s] || p.toks[p.i+1].s == "." || p.toks[p.i+1].s == "/") {
			sb.WriteString(p.next().s)
		} else if t.k == "int" && sb.Len() > 0 {
			sb.WriteString(p.next().s)
		} else {
			break
		}
		if (p.isOp(".") || p.isOp("/") || p.isOp("-")) && (p.toks[p.i+1].k == "id" || p.toks[p.i+1].k == "int") && !clauseKeywords[p.toks[p.i+1].s] {
			sb.WriteString(p.next().s)
			continue
		}
		break
	}
	return sb.String()
}

func (p *parser) parseFuncKey() string {
	var sb strings.Builder
	if p.isOp("(") && (p.toks[p.i+1].s == "*" || p.toks[p.i+1].k == "id") {
		// receiver: (*pkg.T) or (pkg.T); but not a parameter list "(a, b)"
		save := p.i
		p.next()
		star := p.acceptOp("*")
		path := p.parsePath()
		if p.isOp(")") && p.toks[p.i+1].s == "." {
			p.next()
			if star {
				sb.WriteString("(*" + path + ")")
			} else {
				sb.WriteString("(" + path + ")")
			}
			p.expectOp(".")
			sb.WriteString(".")
		} else {
			p.i = save
			p.fail("expected function name")
		}
	}
	sb.WriteString(p.parsePath())
	if sb.Len() == 0 {
		p.fail("expected function name")
	}
	return sb.String()
}

func (p *parser) parseFuncSpecBody(fs *FuncSpec) {
	for {
		t := p.peek()
		if t.k != "id" {
			return
		}
		switch t.s {
		case "returns":
			p.next()
			fs.Returns = p.parseIdentList()
		case "params":
			p.next()
			fs.ParamNames = p.parseIdentList()
		case "variant":
			p.next()
			fs.Variant = p.ident()
		case "props":
			p.next()
			for p.peek().k == "id" && !clauseKeywords[p.peek().s] {
				fs.Props = append(fs.Props, p.ident())
			}
		case "free":
			p.next()
			k := p.next()
			c := p.parseClause()
			c.Free = true
			if k.s == "requires" {
				fs.Requires = append(fs.Requires, c)
			} else if k.s == "ensures" {
				fs.Ensures = append(fs.Ensures, c)
			} else {
				p.fail("free requires|ensures expected")
			}
		case "requires":
			p.next()
			fs.Requires = append(fs.Requires, p.parseClause())
		case "captured":
			p.next()
			fs.Captured = append(fs.Captured, p.parseClause())
		case "defines":
			// definitional clause about the closure value "self": assumed where the closure is created and at its entry
			p.next()
			c := p.parseClause()
			c.Free = true
			fs.Captured = append(fs.Captured, c)
		case "ensures":
			p.next()
			fs.Ensures = append(fs.Ensures, p.parseClause())
		case "modifies":
			p.next()
			if p.isOp("*") && (p.toks[p.i+1].k == "eof" || (p.toks[p.i+1].k == "id" && clauseKeywords[p.toks[p.i+1].s])) {
				p.next()
				fs.ModAll = true
				break
			}
			fs.Modifies = append(fs.Modifies, p.parseExpr())
			for p.acceptOp(",") {
				fs.Modifies = append(fs.Modifies, p.parseExpr())
			}
			p.acceptOp(";")
		case "decreases":
			p.next()
			fs.Decreases = p.parseExpr()
		case "inline":
			p.next()
			fs.Inline = true
		case "pure":
			p.next()
			fs.Pure = true
		case "assumed":
			p.next()
			fs.Assumed = true
		case "nosafety":
			p.next()
			fs.NoSafety = true
		case "aspect":
			// "func F aspect NAME": a variant proving extra postconditions of the plain contract
			p.next()
			fs.Variant = p.ident()
			fs.Aspect = true
		case "standalone":
			// a variant that does not inherit the clauses of the plain contract
			p.next()
			fs.NoInherit = true
		case "refines":
			p.next()
			fs.Refines = p.qualIdent()
		case "dyncall":
			p.next()
			n := p.next()
			k, err := strconv.Atoi(n.s)
			if err != nil {
				p.fail("dyncall ordinal expected")
			}
			if fs.DynCalls == nil {
				fs.DynCalls = map[int]string{}
			}
			fs.DynCalls[k] = p.parseFuncKey()
		case "funcparam":
			p.next()
			pn := p.ident()
			if fs.ParamCons == nil {
				fs.ParamCons = map[string]string{}
			}
			fs.ParamCons[pn] = p.parseFuncKey()
		case "calluse":
			p.next()
			callee := p.parseFuncKey()
			ord := "1"
			if p.acceptOp("#") {
				ord = p.next().s
			}
			if fs.CallUses == nil {
				fs.CallUses = map[string]string{}
			}
			fs.CallUses[callee+"#"+ord] = p.ident()
		case "bind":
			p.next()
			name := p.ident()
			p.expectOp("=")
			if fs.Bind == nil {
				fs.Bind = map[string]string{}
			}
			fs.Bind[name] = p.parseFuncKey()
		case "let":
			p.next()
			name := p.ident()
			p.expectOp(":=")
			from := p.peek().pos
			e := p.parseExpr()
			fs.Lets = append(fs.Lets, &Hint{Kind: "let", Name: name, E: e, Src: p.srcOf(from)})
			p.acceptOp(";")
		case "loop":
			p.next()
			n := p.next()
			k, err := strconv.Atoi(n.s)
			if err != nil {
				p.fail("loop ordinal expected")
			}
			ls := &LoopSpec{Ordinal: k}
			p.expectOp("{")
			for !p.isOp("}") {
				t := p.peek()
				switch {
				case t.s == "invariant":
					p.next()
					ls.Invariants = append(ls.Invariants, p.parseClause())
				case t.s == "free":
					p.next()
					if !p.acceptID("invariant") {
						p.fail("free invariant expected")
					}
					c := p.parseClause()
					c.Free = true
					ls.Invariants = append(ls.Invariants, c)
				case t.s == "decreases":
					p.next()
					ls.Decreases = p.parseExpr()
					p.acceptOp(";")
				case t.s == "body":
					p.next()
					ls.BodyHints = append(ls.BodyHints, p.parseHintBlock()...)
				case t.s == "end":
					p.next()
					ls.EndHints = append(ls.EndHints, p.parseHintBlock()...)
				case t.s == "pre":
					p.next()
					ls.PreHints = append(ls.PreHints, p.parseHintBlock()...)
				case isHintKw(t.s):
					ls.Hints = append(ls.Hints, p.parseHint())
				default:
					p.fail("unexpected token in loop block")
				}
			}
			p.expectOp("}")
			if fs.Loops == nil {
				fs.Loops = map[int]*LoopSpec{}
			}
			fs.Loops[k] = ls
		case "ghost":
			if nt := p.toks[p.i+1]; nt.s != "before" && nt.s != "after" && nt.s != "at" {
				return // a top-level ghost variable declaration
			}
			p.next()
			gp := &GhostPoint{}
			gp.When = p.ident() // before | after | at
			gp.What = p.ident() // call | mapupdate | store | entry | return | send
			if p.peek().k == "int" {
				gp.Ordinal, _ = strconv.Atoi(p.next().s)
			} else if p.peek().s == "every" {
				// the block runs at EVERY event of this kind (every call of the named function): used for trace updates,
				// so that an added second call cannot escape the trace
				p.next()
				gp.Ordinal = -1
			} else {
				gp.Ordinal = 1
			}
			if !p.isOp("{") {
				gp.Callee = p.parseFuncKey()
			}
			gp.Hints = p.parseHintBlock()
			fs.Ghosts = append(fs.Ghosts, gp)
		default:
			return
		}
	}
}

func (p *parser) parseFile() (sf *SpecFile, err error) {
	defer func() {
		if r := recover(); r != nil {
			if pe, ok := r.(parseErr); ok {
				err = fmt.Errorf("%s", pe.msg)
				return
			}
			panic(r)
		}
	}()
	sf = &SpecFile{}
	for p.peek().k != "eof" {
		t := p.peek()
		if t.k != "id" {
			p.fail("expected declaration")
		}
		switch t.s {
		case "sort":
			p.next()
			sf.Sorts = append(sf.Sorts, p.ident())
		case "ghost", "const":
			p.next()
			name := p.ident()
			ty := p.parseType()
			sf.Ghosts = append(sf.Ghosts, &GhostVar{name, ty, t.s == "const"})
		case "fun", "pred", "macro":
			p.next()
			f := &SpecFun{File: p.file}
			f.Name = p.ident()
			p.expectOp("(")
			f.Params = p.parseBinders(")")
			p.expectOp(")")
			if t.s == "pred" {
				f.Macro = true
				f.Result = &TypeExpr{Kind: "name", Name: "bool"}
			} else if t.s == "macro" {
				// a state-reading abbreviation of any type, expanded in place
				f.Macro = true
				f.Result = p.parseType()
			} else {
				f.Result = p.parseType()
			}
			if p.acceptID("opaque") {
				f.Opaque = true
			}
			if p.acceptOp(":=") {
				f.Body = p.parseExpr()
			}
			sf.Funs = append(sf.Funs, f)
		case "axiom":
			p.next()
			a := &Axiom{File: p.file}
			a.Name = p.ident()
			p.expectOp(":")
			a.E = p.parseExpr()
			sf.Axioms = append(sf.Axioms, a)
		case "lemma":
			p.next()
			l := &Lemma{File: p.file}
			l.Name = p.ident()
			p.expectOp("(")
			l.Params = p.parseBinders(")")
			p.expectOp(")")
			for {
				if p.acceptID("requires") {
					l.Requires = append(l.Requires, p.parseExpr())
				} else if p.acceptID("ensures") {
					l.Ensures = append(l.Ensures, p.parseExpr())
				} else if p.acceptID("induction") {
					l.Induction = p.ident()
				} else if p.acceptID("assumed") {
					l.Assumed = true
				} else if p.acceptID("props") {
					for p.peek().k == "id" && !clauseKeywords[p.peek().s] {
						l.Props = append(l.Props, p.ident())
					}
				} else {
					break
				}
			}
			if p.isOp("{") {
				l.Hints = p.parseHintBlock()
			}
			sf.Lemmas = append(sf.Lemmas, l)
		case "func", "extern":
			p.next()
			fs := &FuncSpec{File: p.file, Line: t.ln}
			fs.Key = p.parseFuncKey()
			if t.s == "extern" {
				fs.Assumed = true
			}
			if p.isOp("(") {
				fs.ParamNames = p.parseIdentList()
			}
			p.parseFuncSpecBody(fs)
			sf.Funcs = append(sf.Funcs, fs)
		case "type":
			p.next()
			tc := &TypeContract{}
			tc.Name = p.qualIdent()
			tc.Params = p.parseIdentList()
			fs := &FuncSpec{File: p.file, Line: t.ln, Key: "type:" + tc.Name}
			p.parseFuncSpecBody(fs)
			tc.Returns = fs.Returns
			fs.ParamNames = tc.Params
			tc.Spec = fs
			sf.Types = append(sf.Types, tc)
		case "method":
			p.next()
			q := p.parsePath()
			k := strings.LastIndex(q, ".")
			if k < 0 {
				p.fail("method Iface.Method expected")
			}
			ms := &IfaceMethodSpec{Iface: q[:k], Method: q[k+1:]}
			fs := &FuncSpec{File: p.file, Line: t.ln, Key: "method:" + q}
			fs.ParamNames = p.parseIdentList()
			p.parseFuncSpecBody(fs)
			ms.Spec = fs
			sf.Methods = append(sf.Methods, ms)
		default:
			p.fail("unknown declaration")
		}
	}
	return sf, nil
}

func parseSpec(file, src string, baseLine int) (*SpecFile, error) {
	toks, err := lex(file, src, baseLine)
	if err != nil {
		return nil, err
	}
	p := &parser{toks: toks, file: file, src: src}
	return p.parseFile()
}
