package main

func checkMain(args []string) {}
