package main

import (
	"encoding/json"
	"flag"
	"fmt"
	"os"
	"path/filepath"
	"runtime"
	"sort"
	"strconv"
	"strings"
	"time"

	"golang.org/x/tools/go/ssa"
)

// ---------------------------------------------------------------------------
// known findings
// ---------------------------------------------------------------------------

type finding struct {
	kind       string // "finding" or "fixed"
	prop       string
	obligation string
	text       string
}

func loadFindings(path string) []finding {
	b, err := os.ReadFile(path)
	if err != nil {
		return nil
	}
	var out []finding
	for _, ln := range strings.Split(string(b), "\n") {
		ln = strings.TrimSpace(ln)
		if ln == "" || strings.HasPrefix(ln, "#") {
			continue
		}
		var f finding
		switch {
		case strings.HasPrefix(ln, "finding:"):
			f.kind = "finding"
			ln = strings.TrimSpace(strings.TrimPrefix(ln, "finding:"))
		case strings.HasPrefix(ln, "fixed:"):
			f.kind = "fixed"
			ln = strings.TrimSpace(strings.TrimPrefix(ln, "fixed:"))
		default:
			continue
		}
		for _, w := range strings.Fields(ln) {
			if strings.HasPrefix(w, "property=") {
				f.prop = strings.TrimPrefix(w, "property=")
			}
			if strings.HasPrefix(w, "obligation=") {
				f.obligation = strings.TrimPrefix(w, "obligation=")
			}
		}
		f.text = ln
		out = append(out, f)
	}
	return out
}

// ---------------------------------------------------------------------------
// check
// ---------------------------------------------------------------------------

func hasProp(ps []string, p string) bool {
	for _, x := range ps {
		if x == p {
			return true
		}
	}
	return false
}

func specMentions(s *FuncSpec, prop string) bool {
	if hasProp(s.Props, prop) {
		return true
	}
	for _, c := range s.Requires {
		if hasProp(c.Props, prop) {
			return true
		}
	}
	for _, c := range s.Ensures {
		if hasProp(c.Props, prop) {
			return true
		}
	}
	for _, l := range s.Loops {
		for _, c := range l.Invariants {
			if hasProp(c.Props, prop) {
				return true
			}
		}
	}
	for _, g := range s.Ghosts {
		for _, h := range g.Hints {
			if hasProp(h.Props, prop) {
				return true
			}
		}
	}
	return false
}

type evidence struct {
	PropertyID  string         `json:"property_id"`
	Tier        string         `json:"tier"`
	Seed        int            `json:"seed"`
	Level       string         `json:"level"`
	Coverage    map[string]any `json:"coverage"`
	Assumptions []string       `json:"assumptions"`
	WallS       float64        `json:"wall_s"`
	Violations  int            `json:"violations"`
}

var generalAssumptions = []string{
	"A-GEN: the verification-condition generator govc (go/ssa NaiveForm -> SMT-LIB) and the SMT solvers are trusted",
	"A-INT: Go int is modelled as mathematical integer (no overflow)",
	"A-REAL: float64 is modelled as mathematical real (no rounding, NaN or Inf)",
	"A-STR: strings are an uninterpreted sort with length/byte-at/substring/concat axioms; < on strings is an arbitrary strict total order",
	"A-MEM: Go memory safety: no forged or dangling pointers; a reference read from memory is allocated; distinct pointee types do not alias",
	"A-NORETAIN: a pointer to a local variable passed to a repository function is treated as not retained only after a syntactic check of the callee (stores / returns / interface conversions of the parameter, depth 4); external callees are trusted not to retain it",
	"A-EXTPURE: a library function WITHOUT contract that receives no reference (only numbers, strings, time values, boxed values of these) is given an unknown result and no effect on repository state; functions of os, io, bufio, fmt.Print*/Fprint*, log.Fatal*/Panic*, runtime, reflect, sync, encoding/csv, math/rand, crypto/rand and the clock (time.Now/Since/Until/Sleep/After/...) are excluded (they havoc everything). Each use is listed under trusted.",
	"A-SEQ: single goroutine; no concurrent mutation of the verified state",
}

func checkMain(args []string) {
	fs := flag.NewFlagSet("check", flag.ExitOnError)
	repo := fs.String("repo", "/repo", "repository")
	verif := fs.String("verif", "/verif", "verification directory")
	prop := fs.String("prop", "", "property id")
	tier := fs.String("tier", "quick", "quick|thorough")
	replayOnly := fs.String("replay", "", "replay file to re-run")
	outDir := fs.String("out", "", "directory for evidence and replay files (default: the verification directory)")
	fs.Parse(args)
	_ = replayOnly
	if *prop == "" {
		fmt.Fprintln(os.Stderr, "check: -prop required")
		os.Exit(2)
	}
	if t := os.Getenv("VERIF_TIER"); t != "" && *tier == "" {
		*tier = t
	}
	seed := 0
	if s := os.Getenv("VERIF_SEED"); s != "" {
		if v, err := strconv.Atoi(s); err == nil {
			seed = v
		}
	}
	t0 := time.Now()
	P, err := loadProg(*repo, filepath.Join(*verif, "assumed"))
	if err != nil {
		fmt.Fprintf(os.Stderr, "govc: cannot load %s: %v\n", *repo, err)
		// a tree that does not compile or whose contracts do not parse is not a property verdict
		os.Exit(2)
	}
	if *outDir == "" {
		*outDir = *verif
	}
	res := runProperty(P, *prop, *tier, seed, *verif, *outDir)
	res.ev.WallS = time.Since(t0).Seconds()
	os.MkdirAll(filepath.Join(*outDir, "evidence"), 0o755)
	b, _ := json.MarshalIndent(res.ev, "", " ")
	os.WriteFile(filepath.Join(*outDir, "evidence", *prop+".json"), b, 0o644)
	// at most 12 VIOLATION lines are printed (one unmodelled helper call can make every later obligation of a
	// function fail); all of them have their replay file and are counted in the summary line
	nv := 0
	for _, l := range res.lines {
		if strings.HasPrefix(l, "VIOLATION") {
			nv++
			if nv > 12 {
				continue
			}
		}
		fmt.Println(l)
	}
	if nv > 12 {
		fmt.Printf("govc: %d further violations not printed (replay files under %s)\n", nv-12, filepath.Join(*outDir, "replays", "out", *prop))
	}
	fmt.Printf("property=%s tier=%s obligations=%d discharged=%d known_findings=%d violations=%d functions=%d wall=%.1fs\n",
		*prop, *tier, res.total, res.discharged, res.known, res.violations, res.nfuncs, res.ev.WallS)
	if res.broken {
		os.Exit(2)
	}
	if res.violations > 0 {
		os.Exit(1)
	}
}

type propResult struct {
	ev         *evidence
	lines      []string
	total      int
	discharged int
	known      int
	violations int
	nfuncs     int
	broken     bool
}

func runProperty(P *Prog, prop, tier string, seed int, verif, outDir string) *propResult {
	res := &propResult{}
	findings := loadFindings(filepath.Join(verif, "known_findings.txt"))
	var units []*Unit
	var uncovered []string
	seen := map[string]bool{}
	addFn := func(fn *ssa.Function, s *FuncSpec) {
		k := P.fnKeys[fn]
		if s != nil {
			k += "[" + s.Variant + "]"
		}
		if seen[k] {
			return
		}
		seen[k] = true
		units = append(units, P.verifyFunction(fn, s))
	}
	for _, fn := range P.repoFns {
		k := P.fnKeys[fn]
		specs := P.specs[k]
		any := false
		for _, s := range specs {
			if s.Assumed || s.Inline {
				continue
			}
			any = true
			if prop == "C08" || specMentions(s, prop) {
				addFn(fn, s)
			}
		}
		if !any && prop == "C08" {
			uncovered = append(uncovered, k)
		}
	}
	// lemmas used (transitively)
	lemmaSeen := map[string]bool{}
	var queue []string
	for _, u := range units {
		for l := range u.VC.lemmasUsed {
			queue = append(queue, l)
		}
	}
	sort.Strings(queue)
	for len(queue) > 0 {
		l := queue[0]
		queue = queue[1:]
		if lemmaSeen[l] {
			continue
		}
		lemmaSeen[l] = true
		lm := P.lemmas[l]
		if lm == nil {
			continue
		}
		u := P.verifyLemma(lm)
		units = append(units, u)
		var more []string
		for m := range u.VC.lemmasUsed {
			more = append(more, m)
		}
		sort.Strings(more)
		queue = append(queue, more...)
	}
	// lemmas explicitly tagged with the property
	for _, name := range P.lemmaOrder {
		if !lemmaSeen[name] && hasProp(P.lemmas[name].Props, prop) {
			lemmaSeen[name] = true
			units = append(units, P.verifyLemma(P.lemmas[name]))
		}
	}
	// select obligations
	var obls []*Obligation
	var specErrs, unsupported []string
	trusted := map[string]bool{}
	notes := map[string]bool{}
	unmodelled := map[string]bool{}
	funcs := map[string]bool{}
	for _, u := range units {
		n := 0
		for _, o := range u.VC.obls {
			if u.Kind == "lemma" || hasProp(o.Props, prop) {
				if u.Kind == "lemma" && prop == "C08" {
					continue
				}
				obls = append(obls, o)
				n++
			}
		}
		if n > 0 {
			funcs[u.Name] = true
			for k := range u.VC.trusted {
				trusted[k] = true
			}
			for _, k := range u.VC.notes {
				notes[k] = true
			}
			for k := range u.VC.unmodelled {
				unmodelled[k] = true
			}
			specErrs = append(specErrs, u.Errors...)
			for _, x := range u.VC.unsupported {
				unsupported = append(unsupported, u.Name+": "+x)
			}
		}
	}
	retried := 0
	timeout := 10
	order := []string{"z3-new-r0", "z3-new", "z3"}
	if tier == "thorough" {
		timeout = 60
		order = []string{"z3-new-r0", "z3-new", "z3", "cvc5"}
	}
	scratch, _ := os.MkdirTemp("", "govc-"+prop+"-")
	defer os.RemoveAll(scratch)
	cfg := runCfg{dir: scratch, timeout: timeout, seed: seed, order: order, workers: (runtime.NumCPU() + 1) / 2, keep: false}
	// obligations recorded as known findings are expected to fail: do not spend the full timeout on them
	{
		var rest, kf []*Obligation
		for _, o := range obls {
			isKF := false
			for _, f := range findings {
				if f.kind == "finding" && f.prop == prop && f.obligation == o.Name {
					isKF = true
				}
			}
			if isKF {
				kf = append(kf, o)
			} else {
				rest = append(rest, o)
			}
		}
		if len(kf) > 0 {
			dischargeAll(kf, runCfg{dir: scratch + "/kf", timeout: 3, seed: seed, order: []string{"z3-new"}, workers: (runtime.NumCPU() + 1) / 2})
		}
		dischargeAll(rest, cfg)
		// An obligation that ran out of time is tried once more with six times the budget before it counts as
		// failed: on a loaded machine (several checks running side by side) a query that takes 2 s alone can exceed
		// the quick budget, and a time-out is not a refutation. At most 24 obligations are retried per run.
		var again []*Obligation
		for _, o := range rest {
			if (o.Status == "timeout" || o.Status == "unknown") && len(again) < 24 {
				again = append(again, o)
			}
		}
		if len(again) > 0 {
			cfg2 := cfg
			cfg2.timeout = cfg.timeout * 6
			cfg2.dir = scratch + "/retry"
			first := map[*Obligation]float64{}
			for _, o := range again {
				first[o] = o.Time
			}
			dischargeAll(again, cfg2)
			for _, o := range again {
				o.Time += first[o]
			}
			retried = len(again)
		}
	}
	// vacuity (smoke) checks of the same units: a refuted smoke check means contradictory assumptions
	var smokes []*Obligation
	for _, u := range units {
		if funcs[u.Name] {
			smokes = append(smokes, u.VC.smokes...)
		}
	}
	dischargeAll(smokes, runCfg{dir: scratch + "/smoke", timeout: 2, seed: seed, order: []string{"z3-new"}, workers: (runtime.NumCPU() + 1) / 2})
	var smokeFailed []string
	os.RemoveAll(filepath.Join(outDir, "replays", "out", prop+"-vacuity"))
	retAll, retBad := map[string]int{}, map[string]int{}
	vacuousFn := map[string]bool{}
	// a function with an undischarged obligation is reported for that obligation; the contradiction that may follow
	// from assuming the failed goal is not a second finding
	for _, o := range obls {
		if o.Status != "discharged" {
			vacuousFn[o.Func] = true
		}
	}
	for _, o := range smokes {
		isRet := strings.Contains(o.Name, "/smoke/return#")
		if isRet {
			retAll[o.Func]++
		}
		if o.Status != "discharged" {
			if isRet {
				retBad[o.Func]++
				continue
			}
			smokeFailed = append(smokeFailed, o.Name)
			// (one report per function: everything after the first contradiction is vacuous anyway)
			if vacuousFn[o.Func] {
				continue
			}
			vacuousFn[o.Func] = true
			// contradictory assumptions at the entry of a function or at a loop head: everything proved after that point
			// is vacuous, so the property is not decided for this function
			res.violations++
			vdir := filepath.Join(outDir, "replays", "out", prop+"-vacuity")
			os.MkdirAll(vdir, 0o755)
			rp := filepath.Join(vdir, mangle(o.Name)+".json")
			jb, _ := json.MarshalIndent(map[string]any{"property": prop, "obligation": o.Name, "kind": "vacuity",
				"solver_output": truncateStr(o.Output, 2000), "failing_input": nil,
				"note": "the assumptions in force at this point (preconditions, invariants, callee contracts) are contradictory: the solver refuted the reachability check"}, "", " ")
			os.WriteFile(rp, jb, 0o644)
			res.lines = append(res.lines, fmt.Sprintf("VIOLATION property=%s replay=%s obligation=%s no-failing-input-found", prop, rp, o.Name))
		}
	}
	for f, n := range retAll {
		if retBad[f] == n {
			smokeFailed = append(smokeFailed, f+"/smoke/return#*")
			res.lines = append(res.lines, fmt.Sprintf("govc: warning: no return of %s is reachable under its contract (vacuous)", f))
		}
	}

	// verdicts
	byBackend := map[string]int{}
	solverS := 0.0
	var slowest []*Obligation
	var samples []any
	replayDir := filepath.Join(outDir, "replays", "out", prop)
	os.RemoveAll(replayDir)
	var knownMatched []string
	nReplay := 0
	replayedFn := map[string]bool{}
	// which failed obligation of a function is replayed: a postcondition (its query contains a complete path from
	// the entry to a return) before safety conditions, asserts and loop steps (whose models start at a loop head)
	replayPick := map[string]*Obligation{}
	prio := func(o *Obligation) int {
		hasModel := o.Status == "failed" || (strings.Contains(o.Output, "\nsat") && !strings.Contains(o.Output, "unsat"))
		k := kindPrio(o)
		if !hasModel {
			k += 10
		}
		return k
	}
	_ = prio
	kindPrioDummy := func(o *Obligation) int {
		switch o.Kind {
		case "post":
			return 0
		case "safety":
			return 1
		case "assert":
			return 2
		case "pre":
			return 3
		}
		return 4
	}
	for _, o := range obls {
		if o.Status == "discharged" {
			continue
		}
		_ = kindPrioDummy
		if b, ok := replayPick[o.Func]; !ok || prio(o) < prio(b) {
			replayPick[o.Func] = o
			if os.Getenv("GOVC_REPLAY_DEBUG") != "" {
				fmt.Fprintf(os.Stderr, "replay-pick %s -> %s (%s %s)\n", o.Func, o.Name, o.Kind, o.Status)
			}
		}
	}
	for _, o := range obls {
		res.total++
		solverS += o.Time
		slowest = append(slowest, o)
		if o.Status == "discharged" {
			res.discharged++
			byBackend[o.Solver]++
			continue
		}
		// known finding?
		matched := false
		for _, f := range findings {
			if f.kind == "finding" && f.prop == prop && f.obligation == o.Name {
				res.lines = append(res.lines, fmt.Sprintf("KNOWN-FINDING: property=%s obligation=%s %s", prop, o.Name, o.Src))
				knownMatched = append(knownMatched, o.Name)
				res.known++
				matched = true
				break
			}
		}
		if matched {
			continue
		}
		res.violations++
		os.MkdirAll(replayDir, 0o755)
		rp := filepath.Join(replayDir, mangle(o.Name)+".json")
		smtCopy := filepath.Join(replayDir, mangle(o.Name)+".smt2")
		os.WriteFile(smtCopy, []byte(o.render(false)), 0o644)
		rep := map[string]any{
			"property": prop, "obligation": o.Name, "kind": o.Kind, "clause": o.Src, "verdict": o.Status,
			"solver": o.Solver, "solver_output": truncateStr(o.Output, 4000), "smt_file": smtCopy, "failing_input": nil,
			"note": "the named obligation was generated from /repo's current source and could not be discharged",
		}
		suffix := " no-failing-input-found"
		if o.Model != "" {
			rep["model"] = truncateStr(o.Model, 8000)
		}
		if in, ok := tryReplay(P, verif, prop, o); ok {
			rep["failing_input"] = in
			suffix = ""
		} else if nReplay < 3 && !replayedFn[o.Func] && replayPick[o.Func] == o && (o.Status == "failed" || o.Status == "unknown" || o.Status == "timeout" || o.Status == "error") && os.Getenv("GOVC_NOREPLAY") == "" {
			// one attempt per function, at most three per run
			nReplay++
			replayedFn[o.Func] = true
			// model-driven replay against the real code (replaygen.go); only the first few violations of a run
			rr := modelReplay(P, o, replayDir)
			rep["replay"] = rr
			if rr.Confirmed {
				rep["failing_input"] = map[string]any{"call": rr.Call, "observed": rr.Observed, "panic": rr.Panic, "violated_clause": rr.Violated}
				suffix = ""
			}
		}
		jb, _ := json.MarshalIndent(rep, "", " ")
		os.WriteFile(rp, jb, 0o644)
		res.lines = append(res.lines, fmt.Sprintf("VIOLATION property=%s replay=%s obligation=%s%s", prop, rp, o.Name, suffix))
	}
	// contract errors and unsupported constructs in units that carry this property are violations of the
	// check's own preconditions: the code can no longer be brought under its contract
	// one report per function whose contract no longer binds
	{
		seenFn := map[string]bool{}
		var ded []string
		for _, e := range specErrs {
			fn := e
			if i := strings.Index(e, ": "); i > 0 {
				fn = e[:i]
			}
			if seenFn[fn] {
				continue
			}
			seenFn[fn] = true
			ded = append(ded, e)
		}
		specErrs = ded
	}
	// contracts whose function has disappeared from the tree
	for _, u := range P.unbound {
		hit := len(u.Props) == 0
		for _, p := range u.Props {
			if p == prop {
				hit = true
			}
		}
		if hit {
			specErrs = append(specErrs, u.Msg+" (the function was renamed, removed or its closures were restructured; the obligations of its contract are undecided)")
		}
	}
	for _, e := range specErrs {
		res.violations++
		os.MkdirAll(replayDir, 0o755)
		rp := filepath.Join(replayDir, fmt.Sprintf("binding_%d.json", res.violations))
		jb, _ := json.MarshalIndent(map[string]any{"property": prop, "obligation": "binding", "error": e,
			"note": "a contract no longer binds to the code (renamed local/parameter/function); the obligations of that function are undecided"}, "", " ")
		os.WriteFile(rp, jb, 0o644)
		res.lines = append(res.lines, fmt.Sprintf("VIOLATION property=%s replay=%s obligation=binding no-failing-input-found", prop, rp))
	}
	if prop != "C08" {
		for _, e := range unsupported {
			res.violations++
			os.MkdirAll(replayDir, 0o755)
			rp := filepath.Join(replayDir, fmt.Sprintf("subset_%d.json", res.violations))
			jb, _ := json.MarshalIndent(map[string]any{"property": prop, "obligation": "outside-subset", "error": e,
				"note": "a function under contract uses a construct outside the verified Go subset; its obligations are undecided"}, "", " ")
			os.WriteFile(rp, jb, 0o644)
			res.lines = append(res.lines, fmt.Sprintf("VIOLATION property=%s replay=%s obligation=outside-subset no-failing-input-found", prop, rp))
		}
	}
	sort.Slice(slowest, func(i, j int) bool { return slowest[i].Time > slowest[j].Time })
	var slow []string
	for i := 0; i < len(slowest) && i < 5; i++ {
		slow = append(slow, fmt.Sprintf("%s %.2fs %s", slowest[i].Name, slowest[i].Time, slowest[i].Solver))
	}
	for i, o := range obls {
		if i%(len(obls)/3+1) == 0 && len(samples) < 4 {
			samples = append(samples, map[string]any{"obligation": o.Name, "kind": o.Kind, "clause": o.Src, "status": o.Status, "backend": o.Solver, "time_s": o.Time, "smt_bytes": len(o.render(false))})
		}
	}
	var fnames []string
	for f := range funcs {
		fnames = append(fnames, f)
	}
	sort.Strings(fnames)
	res.nfuncs = len(fnames)
	tb := append([]string{}, sortedKeys(trusted)...)
	for _, u := range sortedKeys(unmodelled) {
		tb = append(tb, "unmodelled external call (havoc): "+u)
	}
	assumptions := append([]string{}, generalAssumptions...)
	for _, n := range sortedKeys(notes) {
		assumptions = append(assumptions, "note: "+n)
	}
	if fnames == nil {
		fnames = []string{}
	}
	if knownMatched == nil {
		knownMatched = []string{}
	}
	if smokeFailed == nil {
		smokeFailed = []string{}
	}
	cov := map[string]any{
		"obligations": res.total - res.known, "discharged": res.discharged, "obligations_recorded_as_known_findings": res.known,
		"checker_cmd":  fmt.Sprintf("govc check -prop %s -tier %s (SSA->SMT-LIB; solvers raced in order %v, timeout %ds each)", prop, tier, order, timeout),
		"trusted_base": tb, "functions_under_contract": fnames, "by_backend": byBackend, "solver_s": solverS, "slowest": slow, "retried_after_timeout": retried,
		"samples": samples, "known_findings_matched": knownMatched, "bounded": []any{},
		"smoke_checks": len(smokes), "smoke_refuted": smokeFailed, "functions_not_under_contract": uncovered,
		"explanation": "every obligation is generated from the SSA of /repo's current working tree and discharged for all inputs and iterations (loops by invariants, recursion by contracts)",
	}
	res.ev = &evidence{PropertyID: prop, Tier: tier, Seed: seed, Level: "proof", Coverage: cov, Assumptions: assumptions, Violations: res.violations}
	if res.total == 0 {
		res.lines = append(res.lines, fmt.Sprintf("govc: no obligations generated for %s (vacuous check)", prop))
		res.broken = true
	}
	return res
}

// tryReplay is extended per property by replay drivers (replay.go)
func tryReplay(P *Prog, verif, prop string, o *Obligation) (any, bool) {
	return runReplayDriver(verif, P.repo, prop, o)
}

func kindPrio(o *Obligation) int {
	switch o.Kind {
	case "post":
		return 0
	case "safety":
		return 1
	case "assert":
		return 2
	case "pre":
		return 3
	}
	return 4
}
