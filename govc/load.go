package main

import (
	"fmt"
	"go/ast"
	"go/types"
	"os"
	"path/filepath"
	"sort"
	"strings"

	"golang.org/x/tools/go/packages"
	"golang.org/x/tools/go/ssa"
	"golang.org/x/tools/go/ssa/ssautil"
)

const rootPath = "github.com/aquilax/hranoprovod-cli/v3"
const cmdPath = "github.com/aquilax/hranoprovod-cli/cmd/hranoprovod-cli/v3"

type Prog struct {
	repo      string
	prog      *ssa.Program
	pkgs      []*packages.Package
	allPkgs   map[string]*packages.Package
	repoPkgs  map[*types.Package]bool
	pkgByName map[string]*types.Package // short name -> repo package
	fns       map[string]*ssa.Function  // key -> function
	fnKeys    map[*ssa.Function]string
	repoFns   []*ssa.Function

	specs         map[string][]*FuncSpec // key -> contract variants
	specFuns      map[string]*SpecFun
	lemmas        map[string]*Lemma
	lemmaOrder    []string
	ghosts        map[string]*GhostVar
	ghostOrder    []string
	axioms        []*Axiom
	typeCons      map[string]*TypeContract
	methods       map[string]*IfaceMethodSpec // "Iface.Method"
	sortsDeclared []string
	specFiles     []string
	specFunOrder  []string
	madeIfaceSet  map[string]bool
	unbound       []unboundSpec
	implCache     map[string][]implSpec
	replayPin     *replayPin
	oldNames      map[string]fnNames
}

func isRepoPath(p string) bool {
	return p == rootPath || strings.HasPrefix(p, rootPath+"/") || p == cmdPath || strings.HasPrefix(p, cmdPath+"/")
}

func loadProg(repo string, assumedDir string) (*Prog, error) {
	cfg := &packages.Config{
		Mode:       packages.LoadAllSyntax,
		Dir:        repo,
		BuildFlags: []string{"-tags=verif"},
		Env:        append(os.Environ(), "GOFLAGS=", "GOPROXY=off", "GOSUMDB=off", "GOTOOLCHAIN=local"),
	}
	pkgs, err := packages.Load(cfg, "./...", cmdPath+"/...")
	if err != nil {
		return nil, err
	}
	var errs []string
	packages.Visit(pkgs, nil, func(p *packages.Package) {
		for _, e := range p.Errors {
			if isRepoPath(p.PkgPath) {
				errs = append(errs, e.Error())
			}
		}
	})
	if len(errs) > 0 {
		return nil, fmt.Errorf("load errors:\n%s", strings.Join(errs, "\n"))
	}
	prog, _ := ssautil.AllPackages(pkgs, ssa.NaiveForm|ssa.GlobalDebug)
	prog.Build()

	P := &Prog{repo: repo, prog: prog, pkgs: pkgs, allPkgs: map[string]*packages.Package{}, repoPkgs: map[*types.Package]bool{},
		pkgByName: map[string]*types.Package{}, fns: map[string]*ssa.Function{}, fnKeys: map[*ssa.Function]string{},
		specs: map[string][]*FuncSpec{}, specFuns: map[string]*SpecFun{}, lemmas: map[string]*Lemma{}, ghosts: map[string]*GhostVar{},
		typeCons: map[string]*TypeContract{}, methods: map[string]*IfaceMethodSpec{}}
	packages.Visit(pkgs, nil, func(p *packages.Package) { P.allPkgs[p.PkgPath] = p })
	for _, p := range pkgs {
		if isRepoPath(p.PkgPath) && p.Types != nil {
			P.repoPkgs[p.Types] = true
			if strings.HasSuffix(p.PkgPath, "testutils") {
				continue
			}
			P.pkgByName[p.Types.Name()] = p.Types
		}
	}
	// index functions
	for fn := range ssautil.AllFunctions(prog) {
		if fn.Synthetic != "" && fn.Parent() == nil {
			// keep package init out; wrappers out
			continue
		}
		k := P.funcKey(fn)
		P.fnKeys[fn] = k
		if _, dup := P.fns[k]; !dup {
			P.fns[k] = fn
		}
		if fn.Pkg != nil && P.repoPkgs[fn.Pkg.Pkg] && fn.Blocks != nil && !strings.HasSuffix(fn.Pkg.Pkg.Path(), "testutils") {
			P.repoFns = append(P.repoFns, fn)
		}
	}
	sort.Slice(P.repoFns, func(i, j int) bool { return P.fnKeys[P.repoFns[i]] < P.fnKeys[P.repoFns[j]] })

	// collect spec files: assumed specs first, then the repo's verif_contracts.go
	if assumedDir != "" {
		files, _ := filepath.Glob(filepath.Join(assumedDir, "*.spec"))
		sort.Strings(files)
		for _, f := range files {
			b, err := os.ReadFile(f)
			if err != nil {
				return nil, err
			}
			sf, err := parseSpec(f, string(b), 1)
			if err != nil {
				return nil, err
			}
			if err := P.addSpecFile(sf, "", true); err != nil {
				return nil, err
			}
			P.specFiles = append(P.specFiles, f)
		}
	}
	for _, p := range pkgs {
		if !isRepoPath(p.PkgPath) {
			continue
		}
		for i, f := range p.Syntax {
			name := p.CompiledGoFiles[i]
			if filepath.Base(name) != "verif_contracts.go" {
				continue
			}
			P.specFiles = append(P.specFiles, name)
			for _, cg := range f.Comments {
				for _, c := range cg.List {
					if !strings.HasPrefix(c.Text, "/*@") {
						continue
					}
					txt := strings.TrimSuffix(strings.TrimPrefix(c.Text, "/*@"), "*/")
					txt = strings.TrimSuffix(txt, "@")
					line := p.Fset.Position(c.Pos()).Line
					sf, err := parseSpec(name, txt, line)
					if err != nil {
						return nil, err
					}
					if err := P.addSpecFile(sf, p.Types.Name(), false); err != nil {
						return nil, err
					}
				}
			}
		}
	}
	// a contract whose function no longer exists (renamed, inlined, restructured closures): not fatal - the contract
	// is dropped and reported as a binding violation of every property it carries (check.go)
	for key, specs := range P.specs {
		for _, s := range specs {
			if !s.Assumed && P.fns[key] == nil {
				P.unbound = append(P.unbound, unboundSpec{Key: key, Props: s.Props, Msg: fmt.Sprintf("%s:%d: contract for unknown function %s", s.File, s.Line, key)})
			}
		}
	}
	for _, u := range P.unbound {
		delete(P.specs, u.Key)
	}
	P.mergeVariants()
	if err := P.resolveRefines(); err != nil {
		return nil, err
	}
	P.loadNames(filepath.Join(filepath.Dir(assumedDir), "tools", "names.json"))
	return P, nil
}

// mergeVariants: a variant contract inherits every clause of the plain contract of the same function
func (P *Prog) mergeVariants() {
	for key, specs := range P.specs {
		var base *FuncSpec
		for _, s := range specs {
			if s.Variant == "" {
				base = s
			}
		}
		if base == nil {
			continue
		}
		// aspects: variants that prove additional postconditions of the plain contract under the same
		// preconditions, each with its own (smaller) set of invariants; their ensures are exported
		for _, s := range specs {
			if s.Variant == "" || !s.Aspect {
				continue
			}
			s.Requires = append(append([]*Clause{}, base.Requires...), s.Requires...)
			s.Lets = append(append([]*Hint{}, base.Lets...), s.Lets...)
			if len(s.Modifies) == 0 && !s.ModAll {
				s.Modifies = base.Modifies
				s.ModAll = base.ModAll
			}
			if len(s.Returns) == 0 {
				s.Returns = base.Returns
			}
			if len(s.Props) == 0 {
				s.Props = base.Props
			}
			if s.CallUses == nil {
				s.CallUses = base.CallUses
			}
			if s.ParamCons == nil {
				s.ParamCons = base.ParamCons
			}
			for _, c := range s.Ensures {
				cp := *c
				cp.Free = true
				cp.Src = c.Src + "   [proved in aspect " + s.Variant + "]"
				base.Ensures = append(base.Ensures, &cp)
			}
			// the exported clauses may use the aspect's entry-state abbreviations
			for _, l := range s.Lets {
				dup := false
				for _, bl := range base.Lets {
					if bl.Name == l.Name {
						dup = true
					}
				}
				if !dup {
					base.Lets = append(base.Lets, l)
				}
			}
		}
		for _, s := range specs {
			if s.Variant == "" || s.NoInherit || s.Aspect {
				continue
			}
			s.Requires = append(append([]*Clause{}, base.Requires...), s.Requires...)
			s.Ensures = append(append([]*Clause{}, base.Ensures...), s.Ensures...)
			s.Lets = append(append([]*Hint{}, base.Lets...), s.Lets...)
			s.Ghosts = append(append([]*GhostPoint{}, base.Ghosts...), s.Ghosts...)
			if len(s.Modifies) == 0 && !s.ModAll {
				s.Modifies = base.Modifies
				s.ModAll = base.ModAll
			}
			if len(s.Returns) == 0 {
				s.Returns = base.Returns
			}
			if s.Decreases == nil {
				s.Decreases = base.Decreases
			}
			if len(s.Props) == 0 {
				s.Props = base.Props
			}
			for k, bl := range base.Loops {
				if s.Loops == nil {
					s.Loops = map[int]*LoopSpec{}
				}
				sl := s.Loops[k]
				if sl == nil {
					cp := *bl
					s.Loops[k] = &cp
					continue
				}
				sl.Invariants = append(append([]*Clause{}, bl.Invariants...), sl.Invariants...)
				sl.Hints = append(append([]*Hint{}, bl.Hints...), sl.Hints...)
				sl.EndHints = append(append([]*Hint{}, bl.EndHints...), sl.EndHints...)
				sl.PreHints = append(append([]*Hint{}, bl.PreHints...), sl.PreHints...)
				if sl.Decreases == nil {
					sl.Decreases = bl.Decreases
				}
			}
			_ = key
		}
	}
}

// resolveRefines: a function that refines a func-type contract carries that contract's clauses
type unboundSpec struct {
	Key   string
	Props []string
	Msg   string
}

func (P *Prog) resolveRefines() error {
	for key, specs := range P.specs {
		for _, s := range specs {
			if s.Refines == "" {
				continue
			}
			tc := P.typeCons[s.Refines]
			if tc == nil {
				return fmt.Errorf("%s: refines unknown type contract %s", key, s.Refines)
			}
			s.Requires = append(append([]*Clause{}, tc.Spec.Requires...), s.Requires...)
			s.Ensures = append(append([]*Clause{}, tc.Spec.Ensures...), s.Ensures...)
			if len(s.Returns) == 0 {
				s.Returns = tc.Returns
			}
			s.AliasParams = tc.Params
			// ghost variables the type contract may modify
			for _, m := range tc.Spec.Modifies {
				if c, ok := m.(*Call); ok && c.Fun == "ghost" {
					s.Modifies = append(s.Modifies, m)
				}
			}
		}
	}
	return nil
}

func (P *Prog) funcKey(fn *ssa.Function) string {
	s := fn.String()
	// replace repo package paths by their short names, longest first
	type rp struct{ path, name string }
	var rps []rp
	for tp := range P.repoPkgs {
		rps = append(rps, rp{tp.Path(), tp.Name()})
	}
	sort.Slice(rps, func(i, j int) bool { return len(rps[i].path) > len(rps[j].path) })
	for _, r := range rps {
		s = strings.ReplaceAll(s, r.path+".", r.name+".")
	}
	return s
}

func (P *Prog) addSpecFile(sf *SpecFile, pkg string, assumed bool) error {
	for _, s := range sf.Sorts {
		P.sortsDeclared = append(P.sortsDeclared, s)
	}
	for _, g := range sf.Ghosts {
		if _, dup := P.ghosts[g.Name]; dup {
			return fmt.Errorf("duplicate ghost %s", g.Name)
		}
		P.ghosts[g.Name] = g
		P.ghostOrder = append(P.ghostOrder, g.Name)
	}
	for _, f := range sf.Funs {
		if _, dup := P.specFuns[f.Name]; dup {
			return fmt.Errorf("duplicate spec function %s", f.Name)
		}
		if f.Body != nil && !f.Macro && callsFun(f.Body, f.Name) {
			f.Rec = true
			f.Opaque = true
		}
		P.specFuns[f.Name] = f
		P.specFunOrder = append(P.specFunOrder, f.Name)
	}
	for _, l := range sf.Lemmas {
		if _, dup := P.lemmas[l.Name]; dup {
			return fmt.Errorf("duplicate lemma %s", l.Name)
		}
		P.lemmas[l.Name] = l
		P.lemmaOrder = append(P.lemmaOrder, l.Name)
	}
	P.axioms = append(P.axioms, sf.Axioms...)
	for _, t := range sf.Types {
		P.typeCons[t.Name] = t
	}
	for _, m := range sf.Methods {
		P.methods[m.Iface+"."+m.Method] = m
	}
	for _, fs := range sf.Funcs {
		if assumed {
			fs.Assumed = true
		}
		key := fs.Key
		if pkg != "" && !strings.Contains(key, "/") && !fs.Assumed {
			// qualify with the package name unless already qualified with a repo package
			q := key
			if strings.HasPrefix(q, "(*") {
				inner := q[2:]
				if !P.hasPkgPrefix(inner) {
					q = "(*" + pkg + "." + inner
				}
			} else if strings.HasPrefix(q, "(") {
				inner := q[1:]
				if !P.hasPkgPrefix(inner) {
					q = "(" + pkg + "." + inner
				}
			} else if !P.hasPkgPrefix(q) {
				q = pkg + "." + q
			}
			key = q
		}
		fs.Key = key
		P.specs[key] = append(P.specs[key], fs)
	}
	return nil
}

func (P *Prog) hasPkgPrefix(s string) bool {
	i := strings.Index(s, ".")
	if i < 0 {
		return false
	}
	_, ok := P.pkgByName[s[:i]]
	if ok {
		// could also be Type.Method within the package: a type named like a package is not present in this repo
		return true
	}
	return false
}

func callsFun(e Expr, name string) bool {
	found := false
	walkExpr(e, func(x Expr) {
		if c, ok := x.(*Call); ok && c.Fun == name {
			found = true
		}
	})
	return found
}

func walkExpr(e Expr, f func(Expr)) {
	if e == nil {
		return
	}
	f(e)
	switch x := e.(type) {
	case *Unary:
		walkExpr(x.X, f)
	case *Binary:
		walkExpr(x.X, f)
		walkExpr(x.Y, f)
	case *Select:
		walkExpr(x.X, f)
	case *Index:
		walkExpr(x.X, f)
		walkExpr(x.I, f)
	case *SliceE:
		walkExpr(x.X, f)
		walkExpr(x.Lo, f)
		walkExpr(x.Hi, f)
	case *Call:
		for _, a := range x.Args {
			walkExpr(a, f)
		}
	case *Old:
		walkExpr(x.X, f)
	case *Quant:
		walkExpr(x.Body, f)
		for _, tr := range x.Triggers {
			for _, t := range tr {
				walkExpr(t, f)
			}
		}
	case *Ite:
		walkExpr(x.C, f)
		walkExpr(x.A, f)
		walkExpr(x.B, f)
	case *Let:
		walkExpr(x.Val, f)
		walkExpr(x.Body, f)
	}
}

// specFor returns the contract of a function (variant "" = plain)
func (P *Prog) specFor(key, variant string) *FuncSpec {
	for _, s := range P.specs[key] {
		if s.Variant == variant {
			return s
		}
	}
	return nil
}

// lookupType resolves a type name written in a contract.
func (P *Prog) lookupType(name string, cur *types.Package) types.Type {
	switch name {
	case "int":
		return tInt
	case "bool":
		return tBool
	case "string":
		return tString
	case "float64":
		return tFloat
	case "byte", "uint8":
		return tByte
	case "error":
		return types.Universe.Lookup("error").Type()
	case "any":
		return types.NewInterfaceType(nil, nil)
	}
	if i := strings.LastIndex(name, "."); i >= 0 {
		pn, tn := name[:i], name[i+1:]
		if pn == "shared" {
			pn = "hranoprovod"
		}
		if tp, ok := P.pkgByName[pn]; ok {
			if o := tp.Scope().Lookup(tn); o != nil {
				return o.Type()
			}
		}
		for path, p := range P.allPkgs {
			if p.Types != nil && (path == pn || strings.HasSuffix(path, "/"+pn) || p.Types.Name() == pn) {
				if o := p.Types.Scope().Lookup(tn); o != nil {
					return o.Type()
				}
			}
		}
		return nil
	}
	if cur != nil {
		if o := cur.Scope().Lookup(name); o != nil {
			if _, ok := o.(*types.TypeName); ok {
				return o.Type()
			}
		}
	}
	// search repo packages (root package first)
	if tp, ok := P.pkgByName["hranoprovod"]; ok {
		if o := tp.Scope().Lookup(name); o != nil {
			if _, ok := o.(*types.TypeName); ok {
				return o.Type()
			}
		}
	}
	for _, tp := range P.pkgByName {
		if o := tp.Scope().Lookup(name); o != nil {
			if _, ok := o.(*types.TypeName); ok {
				return o.Type()
			}
		}
	}
	return nil
}

// lookupConst resolves pkg.Name constants used in contracts
func (P *Prog) lookupConst(name string, cur *types.Package) *types.Const {
	var scope *types.Scope
	id := name
	if i := strings.LastIndex(name, "."); i >= 0 {
		pn := name[:i]
		id = name[i+1:]
		if pn == "shared" {
			pn = "hranoprovod"
		}
		if tp, ok := P.pkgByName[pn]; ok {
			scope = tp.Scope()
		} else {
			for path, p := range P.allPkgs {
				if (path == pn || strings.HasSuffix(path, "/"+pn)) && p.Types != nil {
					scope = p.Types.Scope()
				}
			}
		}
	} else if cur != nil {
		scope = cur.Scope()
	}
	if scope == nil {
		return nil
	}
	if c, ok := scope.Lookup(id).(*types.Const); ok {
		return c
	}
	return nil
}

var _ = ast.Inspect
