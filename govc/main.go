package main

import (
	"flag"
	"fmt"
	"golang.org/x/tools/go/ssa"
	"os"
	"runtime"
	"sort"
	"strings"
	"time"
)

func main() {
	if len(os.Args) < 2 {
		fmt.Fprintln(os.Stderr, "usage: govc <dev|check|list> ...")
		os.Exit(2)
	}
	switch os.Args[1] {
	case "dev":
		devMain(os.Args[2:])
	case "check":
		checkMain(os.Args[2:])
	case "names":
		namesMain(os.Args[2:])
	case "replay":
		replayMain(os.Args[2:])
	case "list":
		listMain(os.Args[2:])
	case "externals":
		externalsMain()
	default:
		fmt.Fprintln(os.Stderr, "unknown command")
		os.Exit(2)
	}
}

func listMain(args []string) {
	fs := flag.NewFlagSet("list", flag.ExitOnError)
	repo := fs.String("repo", "/repo", "repository")
	assumed := fs.String("assumed", "/verif/assumed", "assumed specs")
	fs.Parse(args)
	P, err := loadProg(*repo, *assumed)
	if err != nil {
		fmt.Fprintln(os.Stderr, err)
		os.Exit(2)
	}
	for _, fn := range P.repoFns {
		k := P.fnKeys[fn]
		mark := " "
		if len(P.specs[k]) > 0 {
			mark = "*"
		}
		fmt.Printf("%s %s\n", mark, k)
	}
}

// devMain verifies selected functions / lemmas and prints every obligation
func devMain(args []string) {
	fs := flag.NewFlagSet("dev", flag.ExitOnError)
	repo := fs.String("repo", "/repo", "repository")
	assumed := fs.String("assumed", "/verif/assumed", "assumed specs")
	fnames := fs.String("f", "", "comma separated function keys (suffix match) or lemma/<name>")
	timeout := fs.Int("t", 10, "solver timeout (s)")
	keep := fs.Bool("keep", false, "keep smt files")
	dir := fs.String("dir", "/tmp/govc-dev", "scratch dir")
	verbose := fs.Bool("v", false, "verbose")
	onlyFail := fs.Bool("q", false, "print only failures")
	order := fs.String("solvers", "z3-new-r0,z3-new,z3", "solver order")
	doSmoke := fs.Bool("smoke", false, "run vacuity (smoke) checks")
	fs.Parse(args)
	t0 := time.Now()
	P, err := loadProg(*repo, *assumed)
	if err != nil {
		fmt.Fprintln(os.Stderr, err)
		os.Exit(2)
	}
	fmt.Printf("loaded in %.1fs: %d repo functions, %d contracts\n", time.Since(t0).Seconds(), len(P.repoFns), len(P.specs))
	var units []*Unit
	for _, want := range strings.Split(*fnames, ",") {
		want = strings.TrimSpace(want)
		if want == "" {
			continue
		}
		if strings.HasPrefix(want, "lemma/") {
			ln := strings.TrimPrefix(want, "lemma/")
			for _, name := range P.lemmaOrder {
				if ln == "*" || name == ln {
					units = append(units, P.verifyLemma(P.lemmas[name]))
				}
			}
			continue
		}
		found := false
		if want == "@" { // everything under contract
			for _, name := range P.lemmaOrder {
				units = append(units, P.verifyLemma(P.lemmas[name]))
			}
		}
		for _, fn := range P.repoFns {
			k := P.fnKeys[fn]
			if k == want || strings.HasSuffix(k, want) || (want == "*") || (want == "@" && len(P.specs[k]) > 0) {
				found = true
				specs := P.specs[k]
				if len(specs) == 0 {
					units = append(units, P.verifyFunction(fn, nil))
				}
				for _, s := range specs {
					if s.Assumed || s.Inline {
						continue
					}
					units = append(units, P.verifyFunction(fn, s))
				}
			}
		}
		if !found {
			fmt.Printf("no function matches %q\n", want)
		}
	}
	var obls []*Obligation
	var smokes []*Obligation
	for _, u := range units {
		obls = append(obls, u.VC.obls...)
		smokes = append(smokes, u.VC.smokes...)
	}
	if *doSmoke {
		scfg := runCfg{dir: *dir + "/smoke", timeout: 2, seed: 0, order: []string{"z3-new"}, workers: (runtime.NumCPU() + 1) / 2, keep: *keep}
		dischargeAll(smokes, scfg)
		for _, o := range smokes {
			if o.Status != "discharged" {
				fmt.Printf("   SMOKE-FAIL %s (assumptions are contradictory: %s)\n", o.Name, o.Status)
			}
		}
		fmt.Printf("%d smoke checks\n", len(smokes))
	}
	cfg := runCfg{dir: *dir, timeout: *timeout, seed: 0, order: strings.Split(*order, ","), workers: (runtime.NumCPU() + 1) / 2, keep: *keep}
	t1 := time.Now()
	dischargeAll(obls, cfg)
	fmt.Printf("%d obligations in %.1fs\n", len(obls), time.Since(t1).Seconds())
	bad := 0
	for _, u := range units {
		if !*onlyFail || len(u.Errors) > 0 || len(u.VC.unsupported) > 0 {
			fmt.Printf("== %s (%d obligations)\n", u.Name, len(u.VC.obls))
		}
		for _, e := range u.Errors {
			fmt.Printf("   ERROR %s\n", e)
			bad++
		}
		for _, e := range u.VC.unsupported {
			fmt.Printf("   UNSUPPORTED %s\n", e)
		}
		if *verbose {
			for _, n := range u.VC.notes {
				fmt.Printf("   note: %s\n", n)
			}
			for _, k := range sortedKeys(u.VC.trusted) {
				fmt.Printf("   trusted: %s\n", k)
			}
		}
		for _, o := range u.VC.obls {
			if o.Status != "discharged" {
				bad++
			}
			if *onlyFail && o.Status == "discharged" {
				continue
			}
			fmt.Printf("   %-10s %-6s %5.2fs %s %v\n", o.Status, o.Solver, o.Time, o.Name, o.Props)
			if o.Status != "discharged" {
				fmt.Printf("              %s\n", o.Src)
				if *verbose {
					fmt.Printf("              file %s\n", o.File)
				}
			}
		}
	}
	sort.Strings(nil)
	if bad > 0 {
		fmt.Printf("%d problems\n", bad)
		os.Exit(1)
	}
}

func externalsMain() {
	P, err := loadProg("/repo", "/verif/assumed")
	if err != nil {
		fmt.Fprintln(os.Stderr, err)
		os.Exit(2)
	}
	cnt := map[string]int{}
	sig := map[string]string{}
	for _, fn := range P.repoFns {
		for _, b := range fn.Blocks {
			for _, in := range b.Instrs {
				ci, ok := in.(ssa.CallInstruction)
				if !ok {
					continue
				}
				c := ci.Common()
				if c.IsInvoke() {
					k := "invoke " + typeKey(c.Value.Type()) + "." + c.Method.Name()
					cnt[k]++
					sig[k] = c.Method.Type().String()
					continue
				}
				if f := c.StaticCallee(); f != nil {
					if f.Pkg != nil && P.repoPkgs[f.Pkg.Pkg] {
						continue
					}
					if pkgOf(f) != nil && P.repoPkgs[pkgOf(f)] {
						continue
					}
					k := P.funcKey(f)
					cnt[k]++
					sig[k] = f.Signature.String()
					continue
				}
				if _, isB := c.Value.(*ssa.Builtin); isB {
					continue
				}
				k := "dynamic " + c.Value.Type().String()
				cnt[k]++
			}
		}
	}
	for _, k := range sortedKeys(cnt) {
		mark := " "
		if len(P.specs[k]) > 0 {
			mark = "*"
		}
		fmt.Printf("%s %3d %s  %s\n", mark, cnt[k], k, sig[k])
	}
}
