package main

import (
	"fmt"
	"go/constant"
	"go/token"
	"go/types"
	"strconv"
	"strings"

	"golang.org/x/tools/go/ssa"
)

type specErr struct{ msg string }

func specFail(format string, a ...any) {
	panic(specErr{fmt.Sprintf(format, a...)})
}

type boundVar struct {
	name string
	val  Val
}

// Env is the context in which a contract expression is translated.
type Env struct {
	vc          *VC
	fr          *Frame
	st          *State
	old         *State
	names       map[string]Val
	bound       []boundVar
	hash        map[string]Val
	paramsFirst bool
	pure        bool
	loopAt      map[string]*State
	cloVal      *Val // closure value whose captured variables are visible by name
	cloFn       *ssa.Function
	depth       int
	binds       map[string]*ssa.Function
	inPattern   bool
}

func (e *Env) with(st *State) *Env {
	n := *e
	n.st = st
	return &n
}

func (e *Env) push(name string, v Val) *Env {
	n := *e
	n.bound = append(append([]boundVar{}, e.bound...), boundVar{name, v})
	return &n
}

// ---------------------------------------------------------------------------
// types
// ---------------------------------------------------------------------------

func (vc *VC) tyOfTypeExpr(te *TypeExpr) Ty {
	return vc.tyOfTypeExprL(te, false)
}

// logical=true: Go slices become seq, Go maps become mapval (used for pure spec functions)
func (vc *VC) tyOfTypeExprL(te *TypeExpr, logical bool) Ty {
	switch te.Kind {
	case "name":
		if vc.S.ghostSorts[te.Name] {
			return Ty{L: "sort", Name: te.Name}
		}
		if te.Name == "real" {
			return goTy(tFloat)
		}
		t := vc.P.lookupType(te.Name, vc.curPkg)
		if t == nil {
			specFail("unknown type %s", te.Name)
		}
		if logical {
			switch u := t.Underlying().(type) {
			case *types.Slice:
				el := goTy(u.Elem())
				return Ty{L: "seq", Elem: &el}
			case *types.Map:
				k, v := goTy(u.Key()), goTy(u.Elem())
				return Ty{L: "mapval", Key: &k, Elem: &v}
			}
		}
		return goTy(t)
	case "ptr":
		el := vc.tyOfTypeExprL(te.Elem, false)
		if el.G == nil {
			specFail("pointer to logical type")
		}
		return goTy(types.NewPointer(el.G))
	case "slice":
		el := vc.tyOfTypeExprL(te.Elem, logical)
		if logical {
			return Ty{L: "seq", Elem: &el}
		}
		return goTy(types.NewSlice(el.G))
	case "map":
		k, v := vc.tyOfTypeExprL(te.Key, logical), vc.tyOfTypeExprL(te.Elem, logical)
		if logical {
			return Ty{L: "mapval", Key: &k, Elem: &v}
		}
		return goTy(types.NewMap(k.G, v.G))
	case "seq":
		el := vc.tyOfTypeExprL(te.Elem, true)
		return Ty{L: "seq", Elem: &el}
	case "set":
		el := vc.tyOfTypeExprL(te.Elem, true)
		return Ty{L: "set", Key: &el}
	case "fmap":
		k, v := vc.tyOfTypeExprL(te.Key, true), vc.tyOfTypeExprL(te.Elem, true)
		return Ty{L: "fmap", Key: &k, Elem: &v}
	}
	specFail("bad type expression")
	return Ty{}
}

func under(t types.Type) types.Type {
	if t == nil {
		return nil
	}
	return types.Unalias(t).Underlying()
}

func isReal(t Ty) bool {
	if t.G == nil {
		return false
	}
	b, ok := under(t.G).(*types.Basic)
	return ok && b.Info()&types.IsFloat != 0
}
func isInt(t Ty) bool {
	if t.G == nil {
		return false
	}
	b, ok := under(t.G).(*types.Basic)
	return ok && b.Info()&types.IsInteger != 0
}
func isStr(t Ty) bool {
	if t.G == nil {
		return false
	}
	b, ok := under(t.G).(*types.Basic)
	return ok && b.Info()&types.IsString != 0
}
func isBoolTy(t Ty) bool {
	if t.G == nil {
		return false
	}
	b, ok := under(t.G).(*types.Basic)
	return ok && b.Info()&types.IsBoolean != 0
}

var tyBool = goTy(tBool)
var tyInt = goTy(tInt)
var tyReal = goTy(tFloat)
var tyStr = goTy(tString)

// ---------------------------------------------------------------------------
// translation
// ---------------------------------------------------------------------------

func (e *Env) trBool(x Expr) string {
	s, t := e.tr(x)
	if !isBoolTy(t) {
		specFail("expected bool, got %s in %s", t, x)
	}
	return s
}

func (e *Env) lookupIdent(name string) (Val, bool) {
	v, ok := e.lookupIdent1(name)
	if !ok && e.fr != nil && e.fr.renamed != nil {
		if nn, has := e.fr.renamed[name]; has {
			if v, ok = e.lookupIdent1(nn); ok {
				e.vc.trusted[fmt.Sprintf("%s: contract name %s bound to the renamed variable %s (same kind, type and position; tools/names.json)", e.fr.key, name, nn)] = true
			}
		}
	}
	return v, ok
}

func (e *Env) lookupIdent1(name string) (Val, bool) {
	for i := len(e.bound) - 1; i >= 0; i-- {
		if e.bound[i].name == name {
			return e.bound[i].val, true
		}
	}
	if e.paramsFirst {
		if v, ok := e.names[name]; ok {
			return v, true
		}
	}
	if e.fr != nil && !e.pure {
		if cs := e.fr.byName[name]; len(cs) > 0 {
			// prefer the most recently created live cell
			for i := len(cs) - 1; i >= 0; i-- {
				c := cs[i]
				if t, ok := e.st.locals[c]; ok {
					return Val{T: c.T, S: t}, true
				}
				if e.fr.escaping[c.Alloc] {
					if v, ok := e.fr.regs[c.Alloc]; ok && v.A != nil {
						return e.vc.load(e.st, v, nil, ""), true
					}
				}
			}
		}
		// free variables of the function under verification
		for _, fv := range e.fr.fn.FreeVars {
			if fv.Name() == name {
				pv := e.fr.regs[fv]
				return e.vc.load(e.st, pv, nil, ""), true
			}
		}
	}
	if v, ok := e.names[name]; ok {
		return v, true
	}
	if e.cloFn != nil && e.cloVal != nil {
		for i, fv := range e.cloFn.FreeVars {
			if fv.Name() == name {
				ref := fmt.Sprintf("(clo_env_%d %s)", i, e.cloVal.S)
				e.vc.useCloEnv(i)
				pt := fv.Type().(*types.Pointer)
				pv := Val{T: fv.Type(), S: ref, A: &Addr{Kind: aHeap, Ref: ref, BaseT: pt.Elem()}}
				return e.vc.load(e.st, pv, nil, ""), true
			}
		}
	}
	if g, ok := e.vc.P.ghosts[name]; ok {
		ty := e.vc.tyOfTypeExprL(g.Type, true)
		if g.Const {
			e.vc.useGhostConst(name)
			return Val{S: "gc_" + name, Ty: &ty}, true
		}
		if e.pure {
			specFail("ghost variable %s used in pure context", name)
		}
		return Val{S: e.vc.ghost(e.st, name), Ty: &ty}, true
	}
	if c := e.vc.P.lookupConst(name, e.vc.curPkg); c != nil {
		return e.vc.constVal(c.Val(), c.Type()), true
	}
	return Val{}, false
}

func (vc *VC) constVal(cv constant.Value, t types.Type) Val {
	switch b := under(t).(type) {
	case *types.Basic:
		switch {
		case b.Info()&types.IsBoolean != 0:
			return Val{T: t, S: fmt.Sprint(constant.BoolVal(cv))}
		case b.Info()&types.IsInteger != 0:
			i, _ := constant.Int64Val(constant.ToInt(cv))
			return Val{T: t, S: smtInt(i)}
		case b.Info()&types.IsFloat != 0:
			return Val{T: t, S: smtReal(cv)}
		case b.Info()&types.IsString != 0:
			return Val{T: t, S: vc.S.strLit(constant.StringVal(cv))}
		}
	}
	return Val{T: t, S: vc.S.zeroOf(t)}
}

func smtInt(i int64) string {
	if i < 0 {
		return fmt.Sprintf("(- %d)", -i)
	}
	return strconv.FormatInt(i, 10)
}

func smtReal(cv constant.Value) string {
	f := constant.ToFloat(cv)
	neg := constant.Sign(f) < 0
	if neg {
		f = constant.UnaryOp(token.SUB, f, 0)
	}
	num, den := constant.Num(f), constant.Denom(f)
	s := ""
	if num.Kind() == constant.Int && den.Kind() == constant.Int {
		if den.ExactString() == "1" {
			s = num.ExactString() + ".0"
		} else {
			s = "(/ " + num.ExactString() + ".0 " + den.ExactString() + ".0)"
		}
	} else {
		fl, _ := constant.Float64Val(f)
		s = strconv.FormatFloat(fl, 'f', -1, 64)
		if !strings.Contains(s, ".") {
			s += ".0"
		}
	}
	if neg {
		return "(- " + s + ")"
	}
	return s
}

func (e *Env) tr(x Expr) (string, Ty) {
	v := e.trVal(x)
	if v.S == "" {
		if v.A != nil && v.A.Kind == aHeap && len(v.A.Path) == 0 {
			return v.A.Ref, v.ty()
		}
		specFail("expression %s has no value term", x)
	}
	return v.S, v.ty()
}

func (e *Env) coerceNum(s string, from Ty, to Ty) string {
	if isReal(to) && isInt(from) {
		if _, err := strconv.Atoi(s); err == nil {
			return s + ".0"
		}
		return "(to_real " + s + ")"
	}
	return s
}

// trVal translates an expression to a value (possibly an address-valued pointer)
func (e *Env) trVal(x Expr) Val {
	vc := e.vc
	switch x := x.(type) {
	case *IntLit:
		return Val{T: tInt, S: x.V}
	case *RealLit:
		return Val{T: tFloat, S: x.V}
	case *StrLit:
		return Val{T: tString, S: vc.S.strLit(x.V)}
	case *CharLit:
		return Val{T: tInt, S: strconv.Itoa(x.V)}
	case *BoolLit:
		return Val{T: tBool, S: fmt.Sprint(x.V)}
	case *NilLit:
		return Val{T: types.Typ[types.UntypedNil], S: "0"}
	case *Ident:
		if x.Name == "result" && e.names != nil {
			if v, ok := e.names["result"]; ok {
				return v
			}
		}
		v, ok := e.lookupIdent(x.Name)
		if !ok {
			specFail("unknown identifier %s", x.Name)
		}
		return v
	case *HashIdent:
		if v, ok := e.hash[x.Name]; ok {
			return v
		}
		specFail("#%s not available here", x.Name)
	case *Old:
		if x.Label != "" {
			st, ok := e.loopAt[x.Label]
			if !ok {
				specFail("at(%s, ..) not available here", x.Label)
			}
			return e.with(st).trVal(x.X)
		}
		if e.old == nil {
			specFail("old() not available here: %s", x)
		}
		n := e.with(e.old)
		n.paramsFirst = true
		return n.trVal(x.X)
	case *Unary:
		switch x.Op {
		case "!":
			return Val{T: tBool, S: "(not " + e.trBool(x.X) + ")"}
		case "-":
			s, t := e.tr(x.X)
			return Val{T: t.G, S: "(- " + s + ")"}
		case "*":
			pv := e.trVal(x.X)
			if _, ok := under(pv.T).(*types.Pointer); !ok {
				specFail("deref of non-pointer %s : %s", x.X, pv.ty())
			}
			return vc.load(e.st, pv, nil, "")
		case "&":
			a := e.trAddr(x.X)
			v := Val{A: a}
			if a.Kind == aHeap && len(a.Path) == 0 {
				v.S = a.Ref
			}
			return v
		}
	case *Binary:
		return e.trBinary(x)
	case *Ite:
		c := e.trBool(x.C)
		a, ta := e.tr(x.A)
		b, tb := e.tr(x.B)
		if isReal(ta) && isInt(tb) {
			b = e.coerceNum(b, tb, ta)
		} else if isReal(tb) && isInt(ta) {
			a = e.coerceNum(a, ta, tb)
			ta = tb
		}
		v := Val{T: ta.G, S: "(ite " + c + " " + a + " " + b + ")"}
		if ta.G == nil {
			v.Ty = &ta
		}
		return v
	case *Let:
		v := e.trVal(x.Val)
		return e.push(x.Name, v).trVal(x.Body)
	case *Quant:
		n := e
		var decl []string
		for _, b := range x.Vars {
			ty := vc.tyOfTypeExprL(b.Type, true)
			vc.nfresh++
			vn := fmt.Sprintf("%s!q%d", mangle(b.Name), vc.nfresh)
			decl = append(decl, "("+vn+" "+vc.S.tySort(ty)+")")
			bv := Val{S: vn}
			if ty.G != nil {
				bv.T = ty.G
			} else {
				t2 := ty
				bv.Ty = &t2
			}
			n = n.push(b.Name, bv)
		}
		body := n.trBool(x.Body)
		var pats []string
		for _, tr := range x.Triggers {
			var ps []string
			for _, t := range tr {
				pn := *n
				pn.inPattern = true
				s, _ := pn.tr(t)
				ps = append(ps, stripMapIte(s))
			}
			pats = append(pats, ":pattern ("+strings.Join(ps, " ")+")")
		}
		qid := ":qid " + strings.ReplaceAll(strings.TrimPrefix(strings.SplitN(decl[0], " ", 2)[0], "("), "!", "_")
		if len(pats) > 0 {
			body = "(! " + body + " " + strings.Join(pats, " ") + " " + qid + ")"
		} else {
			body = "(! " + body + " " + qid + ")"
		}
		q := "exists"
		if x.Forall {
			q = "forall"
		}
		return Val{T: tBool, S: "(" + q + " (" + strings.Join(decl, " ") + ") " + body + ")"}
	case *Select:
		return e.trSelect(x)
	case *Index:
		return e.trIndex(x)
	case *SliceE:
		s, t := e.tr(x.X)
		if !isStr(t) {
			specFail("slicing of non-string in contract: %s", x)
		}
		lo, hi := "0", "(slen "+s+")"
		if x.Lo != nil {
			lo, _ = e.tr(x.Lo)
		}
		if x.Hi != nil {
			hi, _ = e.tr(x.Hi)
		}
		vc.S.useStr("ssub")
		r := "(ssub " + s + " " + lo + " " + hi + ")"
		if !strings.Contains(r, "!q") && !strings.Contains(r, "p_") && !e.pure {
			if vc.ssubSeen == nil {
				vc.ssubSeen = map[string]bool{}
			}
			if !vc.ssubSeen[r] {
				vc.ssubSeen[r] = true
				vc.ssubFacts(r, s, lo, hi)
			}
		}
		return Val{T: tString, S: r}
	case *Call:
		return e.trCall(x)
	}
	specFail("cannot translate %s", x)
	return Val{}
}

func (e *Env) trBinary(x *Binary) Val {
	vc := e.vc
	switch x.Op {
	case "&&", "||", "==>", "<==>":
		a, b := e.trBool(x.X), e.trBool(x.Y)
		op := map[string]string{"&&": "and", "||": "or", "==>": "=>", "<==>": "="}[x.Op]
		return Val{T: tBool, S: "(" + op + " " + a + " " + b + ")"}
	case "in":
		k, _ := e.tr(x.X)
		mv := e.trVal(x.Y)
		mt := mv.ty()
		if mt.G != nil {
			if m, ok := under(mt.G).(*types.Map); ok {
				ms := vc.S.mapSortGo(m)
				h := vc.heap(e.st, vc.mapHeapName(m))
				return Val{T: tBool, S: fmt.Sprintf("(select (%s__dom (select %s %s)) %s)", ms, h, mv.S, k)}
			}
			specFail("'in' on %s", mt)
		}
		switch mt.L {
		case "set":
			return Val{T: tBool, S: "(select " + mv.S + " " + k + ")"}
		case "mapval":
			ms := vc.S.tySort(mt)
			return Val{T: tBool, S: fmt.Sprintf("(select (%s__dom %s) %s)", ms, mv.S, k)}
		}
		specFail("'in' on %s", mt)
	}
	av, bv := e.trVal(x.X), e.trVal(x.Y)
	ta, tb := av.ty(), bv.ty()
	a, b := av.S, bv.S
	if a == "" && av.A != nil && av.A.Kind == aHeap && len(av.A.Path) == 0 {
		a = av.A.Ref
	}
	if b == "" && bv.A != nil && bv.A.Kind == aHeap && len(bv.A.Path) == 0 {
		b = bv.A.Ref
	}
	// nil comparisons
	_, an := x.X.(*NilLit)
	_, bn := x.Y.(*NilLit)
	if an && !bn {
		a, b, ta, tb, an, bn = b, a, tb, ta, false, true
		av, bv = bv, av
	}
	if bn && (x.Op == "==" || x.Op == "!=") {
		var s string
		if av.A != nil && (av.A.Kind != aHeap || len(av.A.Path) > 0 || av.A.Fresh) {
			// address of a local, of a field or of a fresh object: never nil
			return Val{T: tBool, S: fmt.Sprint(x.Op == "!=")}
		}
		switch under(ta.G).(type) {
		case *types.Slice:
			s = "(= (s_arr " + a + ") 0)"
		case *types.Interface:
			s = "(= (i_typ " + a + ") 0)"
		default:
			s = "(= " + a + " 0)"
		}
		if x.Op == "!=" {
			s = "(not " + s + ")"
		}
		return Val{T: tBool, S: s}
	}
	if isReal(ta) && isInt(tb) {
		b = e.coerceNum(b, tb, ta)
		tb = ta
	} else if isReal(tb) && isInt(ta) {
		a = e.coerceNum(a, ta, tb)
		ta = tb
	}
	switch x.Op {
	case "==":
		return Val{T: tBool, S: "(= " + a + " " + b + ")"}
	case "!=":
		return Val{T: tBool, S: "(not (= " + a + " " + b + "))"}
	case "<", "<=", ">", ">=":
		if isStr(ta) {
			vc.S.useStr("slt")
			switch x.Op {
			case "<":
				return Val{T: tBool, S: "(slt " + a + " " + b + ")"}
			case ">":
				return Val{T: tBool, S: "(slt " + b + " " + a + ")"}
			case "<=":
				return Val{T: tBool, S: "(not (slt " + b + " " + a + "))"}
			case ">=":
				return Val{T: tBool, S: "(not (slt " + a + " " + b + "))"}
			}
		}
		return Val{T: tBool, S: "(" + x.Op + " " + a + " " + b + ")"}
	case "+":
		if isStr(ta) {
			vc.S.useStr("sconcat")
			return Val{T: tString, S: "(sconcat " + a + " " + b + ")"}
		}
		return Val{T: ta.G, S: "(+ " + a + " " + b + ")"}
	case "-", "*":
		return Val{T: ta.G, S: "(" + x.Op + " " + a + " " + b + ")"}
	case "/":
		if isReal(ta) {
			return Val{T: ta.G, S: "(/ " + a + " " + b + ")"}
		}
		return Val{T: ta.G, S: "(div " + a + " " + b + ")"}
	case "%":
		return Val{T: ta.G, S: "(mod " + a + " " + b + ")"}
	}
	specFail("bad binary %s", x.Op)
	return Val{}
}

func (e *Env) trSelect(x *Select) Val {
	vc := e.vc
	// package-qualified constant?
	if id, ok := x.X.(*Ident); ok {
		if _, isVar := e.lookupIdent(id.Name); !isVar {
			if c := vc.P.lookupConst(id.Name+"."+x.Name, vc.curPkg); c != nil {
				return vc.constVal(c.Val(), c.Type())
			}
		}
	}
	xv := e.trVal(x.X)
	t := xv.ty()
	if t.G == nil {
		if t.L == "mapval" {
			ms := vc.S.tySort(t)
			switch x.Name {
			case "dom":
				k := *t.Key
				return Val{S: fmt.Sprintf("(%s__dom %s)", ms, xv.S), Ty: &Ty{L: "set", Key: &k}}
			case "card":
				return Val{T: tInt, S: fmt.Sprintf("(%s__card %s)", ms, xv.S)}
			}
		}
		specFail("field selection on logical type %s", t)
	}
	obj, idx, _ := types.LookupFieldOrMethod(t.G, true, nil, x.Name)
	if obj == nil {
		// unexported field: need the package
		st, _ := structOf(derefT(t.G))
		if st != nil {
			for i := 0; i < st.NumFields(); i++ {
				if st.Field(i).Name() == x.Name {
					obj, idx = st.Field(i), []int{i}
				}
			}
		}
		if obj == nil {
			specFail("no field %s in %s", x.Name, t)
		}
	}
	cur := xv
	curT := t.G
	for _, i := range idx {
		if pt, ok := under(curT).(*types.Pointer); ok {
			cur = vc.load(e.st, cur, nil, "")
			curT = pt.Elem()
		}
		st, _ := structOf(curT)
		if st == nil {
			specFail("field selection on non-struct %s", curT)
		}
		if cur.S == "" {
			specFail("no struct value for %s", x)
		}
		cur = Val{T: st.Field(i).Type(), S: vc.S.fieldSel(curT, i, cur.S)}
		curT = st.Field(i).Type()
	}
	return cur
}

func derefT(t types.Type) types.Type {
	if pt, ok := under(t).(*types.Pointer); ok {
		return pt.Elem()
	}
	return t
}

func (e *Env) trIndex(x *Index) Val {
	vc := e.vc
	xv := e.trVal(x.X)
	t := xv.ty()
	i, _ := e.tr(x.I)
	if t.G != nil {
		switch u := under(t.G).(type) {
		case *types.Slice:
			h := vc.heap(e.st, vc.arrHeapName(u.Elem()))
			return Val{T: u.Elem(), S: fmt.Sprintf("(select (select %s (s_arr %s)) %s)", h, xv.S, i)}
		case *types.Map:
			// as in Go: a key that is not in the map reads as the zero value
			ms := vc.S.mapSortGo(u)
			h := vc.heap(e.st, vc.mapHeapName(u))
			rec := fmt.Sprintf("(select %s %s)", h, xv.S)
			if e.inPattern {
				return Val{T: u.Elem(), S: fmt.Sprintf("(select (%s__val %s) %s)", ms, rec, i)}
			}
			return Val{T: u.Elem(), S: fmt.Sprintf("(ite (select (%s__dom %s) %s) (select (%s__val %s) %s) %s)", ms, rec, i, ms, rec, i, vc.S.zeroOf(u.Elem()))}
		case *types.Basic:
			if u.Info()&types.IsString != 0 {
				return Val{T: tByte, S: "(sat " + xv.S + " " + i + ")"}
			}
		case *types.Array:
			return Val{T: u.Elem(), S: "(select " + xv.S + " " + i + ")"}
		case *types.Pointer:
			if at, ok := under(u.Elem()).(*types.Array); ok {
				av := vc.load(e.st, xv, nil, "")
				return Val{T: at.Elem(), S: "(select " + av.S + " " + i + ")"}
			}
		}
		specFail("indexing of %s", t)
	}
	switch t.L {
	case "seq":
		v := Val{S: "(select " + xv.S + " " + i + ")"}
		if t.Elem.G != nil {
			v.T = t.Elem.G
		} else {
			v.Ty = t.Elem
		}
		return v
	case "fmap":
		v := Val{S: "(select " + xv.S + " " + i + ")"}
		if t.Elem.G != nil {
			v.T = t.Elem.G
		} else {
			v.Ty = t.Elem
		}
		return v
	case "set":
		return Val{T: tBool, S: "(select " + xv.S + " " + i + ")"}
	case "mapval":
		ms := vc.S.tySort(t)
		v := Val{S: fmt.Sprintf("(select (%s__val %s) %s)", ms, xv.S, i)}
		if t.Elem.G != nil {
			v.T = t.Elem.G
		} else {
			v.Ty = t.Elem
		}
		return v
	}
	specFail("indexing of %s", t)
	return Val{}
}

// trAddr translates an l-value expression to an address
func (e *Env) trAddr(x Expr) *Addr {
	vc := e.vc
	switch x := x.(type) {
	case *Unary:
		if x.Op == "*" {
			pv := e.trVal(x.X)
			return vc.addrOf(pv)
		}
	case *Ident:
		if e.fr != nil {
			if cs := e.fr.byName[x.Name]; len(cs) > 0 {
				c := cs[len(cs)-1]
				if _, ok := e.st.locals[c]; ok {
					return &Addr{Kind: aLocal, Cell: c, BaseT: c.T}
				}
				if v, ok := e.fr.regs[c.Alloc]; ok && v.A != nil {
					return v.A
				}
			}
			for _, fv := range e.fr.fn.FreeVars {
				if fv.Name() == x.Name {
					return vc.addrOf(e.fr.regs[fv])
				}
			}
		}
		if e.cloFn != nil && e.cloVal != nil {
			for i, fv := range e.cloFn.FreeVars {
				if fv.Name() == x.Name {
					vc.useCloEnv(i)
					pt := fv.Type().(*types.Pointer)
					return &Addr{Kind: aHeap, Ref: fmt.Sprintf("(clo_env_%d %s)", i, e.cloVal.S), BaseT: pt.Elem()}
				}
			}
		}
	case *Select:
		// pointer.field or lvalue.field
		xv, ok := e.tryVal(x.X)
		if ok {
			if pt, isPtr := under(xv.T).(*types.Pointer); isPtr {
				base := vc.addrOf(xv)
				st, _ := structOf(pt.Elem())
				if st != nil {
					for i := 0; i < st.NumFields(); i++ {
						if st.Field(i).Name() == x.Name {
							return base.withStep(pathStep{Field: i, T: pt.Elem()})
						}
					}
				}
				specFail("no field %s", x.Name)
			}
		}
		base := e.trAddr(x.X)
		bt := vc.addrType(base)
		st, _ := structOf(bt)
		if st == nil {
			specFail("field address on non-struct %s", bt)
		}
		for i := 0; i < st.NumFields(); i++ {
			if st.Field(i).Name() == x.Name {
				return base.withStep(pathStep{Field: i, T: bt})
			}
		}
	case *Call:
		if x.Fun == "cellat" && len(x.Args) == 2 {
			t := vc.typeArg(x.Args[0])
			r, _ := e.tr(x.Args[1])
			return &Addr{Kind: aHeap, Ref: r, BaseT: t}
		}
		if x.Fun == "captured" && len(x.Args) == 2 {
			id, ok1 := x.Args[0].(*Ident)
			vn, ok2 := x.Args[1].(*Ident)
			if ok1 && ok2 {
				var fn *ssa.Function
				if e.fr != nil {
					fn = e.fr.topFrame().bind[id.Name]
				}
				if fn == nil && e.binds != nil {
					fn = e.binds[id.Name]
				}
				if fn != nil {
					cv := e.trVal(x.Args[0])
					for i, fv := range fn.FreeVars {
						if fv.Name() == vn.Name {
							vc.useCloEnv(i)
							pt := fv.Type().(*types.Pointer)
							return &Addr{Kind: aHeap, Ref: fmt.Sprintf("(clo_env_%d %s)", i, cv.S), BaseT: pt.Elem()}
						}
					}
				}
			}
		}
	case *Index:
		xv := e.trVal(x.X)
		i, _ := e.tr(x.I)
		if sl, ok := under(xv.T).(*types.Slice); ok {
			return &Addr{Kind: aElem, Ref: "(s_arr " + xv.S + ")", Idx: i, BaseT: sl.Elem()}
		}
	}
	specFail("not an l-value: %s", x)
	return nil
}

func (e *Env) tryVal(x Expr) (v Val, ok bool) {
	defer func() {
		if r := recover(); r != nil {
			if _, is := r.(specErr); is {
				ok = false
				return
			}
			panic(r)
		}
	}()
	return e.trVal(x), true
}

func (e *Env) trCall(x *Call) Val {
	vc := e.vc
	argS := func(i int) (string, Ty) { return e.tr(x.Args[i]) }
	switch x.Fun {
	case "since":
		// since(label, e): e with old(...) referring to the labelled state (loopK / preK / call) instead of the entry state
		id, ok := x.Args[0].(*Ident)
		if !ok || len(x.Args) != 2 {
			specFail("since(label, expr)")
		}
		st, ok := e.loopAt[id.Name]
		if !ok {
			specFail("since(%s, ..) not available here", id.Name)
		}
		n := *e
		n.old = st
		return n.trVal(x.Args[1])
	case "len":
		v := e.trVal(x.Args[0])
		t := v.ty()
		if t.G != nil {
			switch u := under(t.G).(type) {
			case *types.Slice:
				return Val{T: tInt, S: "(s_len " + v.S + ")"}
			case *types.Basic:
				return Val{T: tInt, S: "(slen " + v.S + ")"}
			case *types.Map:
				ms := vc.S.mapSortGo(u)
				h := vc.heap(e.st, vc.mapHeapName(u))
				return Val{T: tInt, S: fmt.Sprintf("(%s__card (select %s %s))", ms, h, v.S)}
			case *types.Array:
				return Val{T: tInt, S: fmt.Sprint(u.Len())}
			}
		}
		if t.L == "mapval" {
			return Val{T: tInt, S: fmt.Sprintf("(%s__card %s)", vc.S.tySort(t), v.S)}
		}
		specFail("len of %s", t)
	case "cap":
		s, _ := argS(0)
		return Val{T: tInt, S: "(s_cap " + s + ")"}
	case "arr":
		s, _ := argS(0)
		return Val{T: tInt, S: "(s_arr " + s + ")"}
	case "elems":
		v := e.trVal(x.Args[0])
		sl, ok := under(v.T).(*types.Slice)
		if !ok {
			specFail("elems of non-slice")
		}
		h := vc.heap(e.st, vc.arrHeapName(sl.Elem()))
		el := goTy(sl.Elem())
		return Val{S: "(select " + h + " (s_arr " + v.S + "))", Ty: &Ty{L: "seq", Elem: &el}}
	case "arrayat":
		// arrayat(T, ref): contents of the array object ref holding elements of type T
		t := vc.typeArg(x.Args[0])
		r, _ := argS(1)
		h := vc.heap(e.st, vc.arrHeapName(t))
		el := goTy(t)
		return Val{S: "(select " + h + " " + r + ")", Ty: &Ty{L: "seq", Elem: &el}}
	case "captured":
		// captured(f, v): the current value of variable v captured by the closure bound to parameter f
		id, ok1 := x.Args[0].(*Ident)
		vn, ok2 := x.Args[1].(*Ident)
		if !ok1 || !ok2 {
			specFail("captured(param, variable)")
		}
		var fn *ssa.Function
		if e.fr != nil {
			fn = e.fr.topFrame().bind[id.Name]
		}
		if fn == nil && e.binds != nil {
			fn = e.binds[id.Name]
		}
		if fn == nil && e.fr != nil {
			fn = vc.fnOfName(e.fr, id.Name)
		}
		if fn == nil {
			specFail("captured: %s is not bound to a known closure", id.Name)
		}
		cv := e.trVal(x.Args[0])
		for i, fv := range fn.FreeVars {
			if fv.Name() == vn.Name {
				vc.useCloEnv(i)
				ref := fmt.Sprintf("(clo_env_%d %s)", i, cv.S)
				pt := fv.Type().(*types.Pointer)
				pv := Val{T: fv.Type(), S: ref, A: &Addr{Kind: aHeap, Ref: ref, BaseT: pt.Elem()}}
				return vc.load(e.st, pv, nil, "")
			}
		}
		specFail("captured: %s does not capture %s", fn.Name(), vn.Name)
	case "mapget":
		// mapget(m, k): the stored value for key k (meaningful when k in m; avoids the zero-value case split)
		mv := e.trVal(x.Args[0])
		k, _ := argS(1)
		u, ok := under(mv.T).(*types.Map)
		if !ok {
			specFail("mapget of non-map")
		}
		ms := vc.S.mapSortGo(u)
		h := vc.heap(e.st, vc.mapHeapName(u))
		return Val{T: u.Elem(), S: fmt.Sprintf("(select (%s__val (select %s %s)) %s)", ms, h, mv.S, k)}
	case "cellat":
		// cellat(T, ref): the value of type T stored at heap reference ref
		t := vc.typeArg(x.Args[0])
		r, _ := argS(1)
		h := vc.heap(e.st, vc.cellHeapName(t))
		return Val{T: t, S: "(select " + h + " " + r + ")"}
	case "mapval":
		v := e.trVal(x.Args[0])
		m, ok := under(v.T).(*types.Map)
		if !ok {
			specFail("mapval of non-map")
		}
		h := vc.heap(e.st, vc.mapHeapName(m))
		k, el := goTy(m.Key()), goTy(m.Elem())
		return Val{S: "(select " + h + " " + v.S + ")", Ty: &Ty{L: "mapval", Key: &k, Elem: &el}}
	case "fresh":
		v := e.trVal(x.Args[0])
		r := refOf(v)
		if e.old == nil {
			specFail("fresh() needs a two-state context")
		}
		return Val{T: tBool, S: "(and (>= " + r + " " + e.old.alloc + ") (< " + r + " " + e.st.alloc + ") (> " + r + " 0))"}
	case "allocated":
		v := e.trVal(x.Args[0])
		r := refOf(v)
		return Val{T: tBool, S: "(< " + r + " " + e.st.alloc + ")"}
	case "ref":
		v := e.trVal(x.Args[0])
		return Val{T: tInt, S: refOf(v)}
	case "alloc":
		return Val{T: tInt, S: e.st.alloc}
	case "typeis":
		s, _ := argS(0)
		tn, ok := x.Args[1].(*StrLit)
		if !ok {
			specFail("typeis(x, \"type\")")
		}
		t := vc.parseGoType(tn.V)
		return Val{T: tBool, S: fmt.Sprintf("(= (i_typ %s) %d)", s, vc.S.typeID(t))}
	case "payload":
		s, _ := argS(0)
		return Val{T: tInt, S: "(i_val " + s + ")"}
	case "chancap":
		s, _ := argS(0)
		vc.useChanCap()
		return Val{T: tInt, S: "(chan_cap " + s + ")"}
	case "real":
		s, t := argS(0)
		return Val{T: tFloat, S: e.coerceNum(s, t, tyReal)}
	case "store":
		a, ta := argS(0)
		i, _ := argS(1)
		v, _ := argS(2)
		t2 := ta
		return Val{S: "(store " + a + " " + i + " " + v + ")", Ty: &t2}
	case "ptr":
		// ptr(Type, e): the reference e viewed as a *Type (e.g. the payload of an interface value of that dynamic type)
		t := vc.typeArg(x.Args[0])
		s, _ := argS(1)
		return Val{T: types.NewPointer(t), S: s}
	case "fconst":
		// fconst(like, v): the constant map / set of the same type as `like`
		_, ta := argS(0)
		v, _ := argS(1)
		t2 := ta
		return Val{S: "((as const " + vc.S.tySort(ta) + ") " + v + ")", Ty: &t2}
	case "slen":
		s, _ := argS(0)
		return Val{T: tInt, S: "(slen " + s + ")"}
	case "mk":
		// mk(Type, f1, f2, ...) struct constructor
		id, ok := x.Args[0].(*Ident)
		if !ok {
			specFail("mk(Type, fields...)")
		}
		t := vc.P.lookupType(id.Name, vc.curPkg)
		if t == nil {
			specFail("unknown type %s", id.Name)
		}
		var fs []string
		st, _ := structOf(t)
		for i, a := range x.Args[1:] {
			s, ta := e.tr(a)
			if st != nil && i < st.NumFields() {
				s = e.coerceNum(s, ta, goTy(st.Field(i).Type()))
			}
			fs = append(fs, s)
		}
		return Val{T: t, S: vc.S.mkStruct(t, fs)}
	}
	if x.Fun == "InSet" && len(x.Args) == 2 {
		// membership of a byte in a literal cut set: expanded to a disjunction (no quantifier)
		c, _ := argS(0)
		set, _ := argS(1)
		if lit, ok := vc.S.litValue(set); ok {
			if len(lit) == 0 {
				return Val{T: tBool, S: "false"}
			}
			var alts []string
			for i := 0; i < len(lit); i++ {
				alts = append(alts, fmt.Sprintf("(= %s %d)", c, lit[i]))
			}
			if len(alts) == 1 {
				return Val{T: tBool, S: alts[0]}
			}
			return Val{T: tBool, S: "(or " + strings.Join(alts, " ") + ")"}
		}
	}
	// lemma-like or spec function
	f, ok := vc.P.specFuns[x.Fun]
	if !ok {
		specFail("unknown function %s", x.Fun)
	}
	if len(f.Params) != len(x.Args) {
		specFail("%s: expected %d arguments, got %d", x.Fun, len(f.Params), len(x.Args))
	}
	if f.Macro {
		if e.depth > 40 {
			specFail("macro expansion too deep in %s", x.Fun)
		}
		n := *e
		n.depth = e.depth + 1
		n.bound = append([]boundVar{}, e.bound...)
		for i, p := range f.Params {
			av := e.trVal(x.Args[i])
			n.bound = append(n.bound, boundVar{p.Name, av})
		}
		// macros do not see the caller's quantifier variables by name, but keeping them is harmless
		return n.trVal(f.Body)
	}
	vc.useSpecFun(f.Name)
	var as []string
	for i, p := range f.Params {
		pt := vc.tyOfTypeExprL(p.Type, true)
		av := e.trVal(x.Args[i])
		as = append(as, e.coerceArg(av, pt, x.Args[i]))
	}
	rt := vc.tyOfTypeExprL(f.Result, true)
	v := Val{S: "(" + specFunName(f.Name) + " " + strings.Join(as, " ") + ")"}
	if len(as) == 0 {
		v.S = specFunName(f.Name)
	}
	if rt.G != nil {
		v.T = rt.G
	} else {
		v.Ty = &rt
	}
	return v
}

func specFunName(n string) string { return "sf_" + n }

func refOf(v Val) string {
	if v.T != nil {
		switch under(v.T).(type) {
		case *types.Slice:
			return "(s_arr " + v.S + ")"
		case *types.Interface:
			return "(i_val " + v.S + ")"
		}
	}
	if v.S == "" && v.A != nil && v.A.Kind == aHeap {
		return v.A.Ref
	}
	return v.S
}

// coerceArg converts a Go-typed value to the logical parameter type of a spec function
func (e *Env) coerceArg(av Val, pt Ty, src Expr) string {
	vc := e.vc
	at := av.ty()
	if pt.G == nil && at.G != nil {
		switch pt.L {
		case "seq":
			if sl, ok := under(at.G).(*types.Slice); ok {
				h := vc.heap(e.st, vc.arrHeapName(sl.Elem()))
				return "(select " + h + " (s_arr " + av.S + "))"
			}
		case "mapval":
			if m, ok := under(at.G).(*types.Map); ok {
				h := vc.heap(e.st, vc.mapHeapName(m))
				return "(select " + h + " " + av.S + ")"
			}
		}
		specFail("cannot pass %s as %s in %s", at, pt, src)
	}
	s := av.S
	if s == "" && av.A != nil && av.A.Kind == aHeap && len(av.A.Path) == 0 {
		s = av.A.Ref
	}
	if pt.G != nil && at.G != nil {
		s = e.coerceNum(s, at, pt)
	}
	return s
}

func (vc *VC) parseGoType(s string) types.Type {
	if strings.HasPrefix(s, "*") {
		t := vc.parseGoType(s[1:])
		return types.NewPointer(t)
	}
	if strings.HasPrefix(s, "[]") {
		return types.NewSlice(vc.parseGoType(s[2:]))
	}
	t := vc.P.lookupType(s, vc.curPkg)
	if t == nil {
		specFail("unknown type %s", s)
	}
	return t
}

// fnOfName: the closure function held by a local or captured func-typed variable that is assigned exactly once
func (vc *VC) fnOfName(fr *Frame, name string) *ssa.Function {
	for _, fv := range fr.fn.FreeVars {
		if fv.Name() == name {
			fn := fv.Parent()
			par := fn.Parent()
			if par == nil {
				return nil
			}
			for i, f2 := range fn.FreeVars {
				if f2 != fv {
					continue
				}
				for _, b := range par.Blocks {
					for _, in := range b.Instrs {
						if mc, ok := in.(*ssa.MakeClosure); ok && mc.Fn == fn && i < len(mc.Bindings) {
							if al, ok := mc.Bindings[i].(*ssa.Alloc); ok {
								return vc.singleStoreFn(fr, al, 0)
							}
						}
					}
				}
			}
		}
	}
	for _, b := range fr.fn.Blocks {
		for _, in := range b.Instrs {
			if al, ok := in.(*ssa.Alloc); ok && al.Comment == name {
				return vc.singleStoreFn(fr, al, 0)
			}
		}
	}
	return nil
}

// stripMapIte rewrites (ite (select (M__dom R) K) (select (M__val R) K) Z) to (select (M__val R) K): solvers do
// not accept ite inside patterns, and the stored value is the right trigger term for "m[k]".
func stripMapIte(s string) string {
	for {
		i := strings.Index(s, "(ite (select (")
		if i < 0 {
			return s
		}
		// parse the three arguments of this ite
		args, end := sexprArgs(s, i)
		if len(args) != 4 || !strings.Contains(args[1], "__dom ") || !strings.Contains(args[2], "__val ") {
			// not the map form: leave (and stop, to avoid looping)
			return s
		}
		s = s[:i] + args[2] + s[end:]
	}
}

// sexprArgs splits the list starting at s[i]=='(' into its top-level elements; returns them and the index after ')'
func sexprArgs(s string, i int) ([]string, int) {
	var out []string
	depth := 0
	start := -1
	for j := i; j < len(s); j++ {
		switch s[j] {
		case '(':
			depth++
			if depth == 2 && start < 0 {
				start = j
			}
		case ')':
			depth--
			if depth == 1 && start >= 0 {
				out = append(out, s[start:j+1])
				start = -1
			}
			if depth == 0 {
				if start >= 0 {
					out = append(out, s[start:j])
				}
				return out, j + 1
			}
		case ' ':
			if depth == 1 {
				if start >= 0 {
					out = append(out, s[start:j])
					start = -1
				}
			}
		default:
			if depth == 1 && start < 0 {
				start = j
			}
		}
	}
	return out, len(s)
}
