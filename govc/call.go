package main

import (
	"fmt"
	"go/token"
	"go/types"
	"regexp"
	"sort"
	"strings"

	"golang.org/x/tools/go/ssa"
)

// ---------------------------------------------------------------------------
// helpers: translation with error capture, hints, ghost points
// ---------------------------------------------------------------------------

func (vc *VC) safeTr(fr *Frame, f func() string, src string) (out string) {
	defer func() {
		if r := recover(); r != nil {
			if se, ok := r.(specErr); ok {
				key := vc.unit
				if fr != nil {
					key = fr.key
				}
				vc.specErrors = append(vc.specErrors, fmt.Sprintf("%s: contract error: %s [in: %s]", key, se.msg, src))
				out = "false"
				return
			}
			panic(r)
		}
	}()
	return f()
}

func (vc *VC) runHints(fr *Frame, st *State, reach string, hints []*Hint, env *Env, where string) {
	// definitions with pairwise (two-variable) quantifiers are revealed only until the next loop head is passed
	defer func() { vc.emitScope = 0 }()
	hasForget := false
	for _, h := range hints {
		if h.Kind == "forget" || h.Kind == "lassert" {
			hasForget = true
		}
	}
	blockScope := 0
	if hasForget {
		vc.uniqScope++
		blockScope = 1000000 + vc.uniqScope
		vc.extraScopes = append(vc.extraScopes, blockScope)
		defer func() { vc.extraScopes = vc.extraScopes[:len(vc.extraScopes)-1] }()
	}
	for _, h := range hints {
		h := h
		e := env.with(st)
		lineStart := len(vc.lines)
		switch h.Kind {
		case "assert", "lassert":
			// lassert: a stepping stone; the established fact stays visible only inside this ghost block
			g := vc.safeTr(fr, func() string { return e.trBool(h.E) }, h.Src)
			label := h.Label
			if label == "" {
				label = fmt.Sprint(vc.countHint(fr, where))
			}
			name := vc.unit + "/assert@" + where + "#" + label
			if fr != nil {
				name = fr.oblName("assert@" + where + "#" + label)
			}
			var props []string
			if fr != nil {
				props = clauseProps(h.Props, fr.defProps())
			} else {
				props = clauseProps(h.Props, vc.unitProps)
			}
			vc.oblige(name, "assert", props, reach, g, h.Src)
			if h.Kind == "lassert" {
				for i := lineStart; i < len(vc.lines) && i < len(vc.lineScope); i++ {
					if strings.HasPrefix(vc.lines[i], "(assert") && vc.lineScope[i] == 0 {
						vc.lineScope[i] = blockScope
					}
				}
			}
		case "assume":
			g := vc.safeTr(fr, func() string { return e.trBool(h.E) }, h.Src)
			vc.assumeG(reach, g)
			vc.trusted["assume in "+vc.unit+" ("+where+"): "+h.Src] = true
		case "unfold":
			if h.Try {
				nerr := len(vc.specErrors)
				g := vc.safeTr(fr, func() string { return e.hintFormula(h.E, true) }, h.Src)
				if len(vc.specErrors) > nerr {
					vc.specErrors = vc.specErrors[:nerr]
					continue
				}
				_ = g
			}
			g := vc.safeTr(fr, func() string { return e.hintFormula(h.E, true) }, h.Src)
			body := g
			if strings.HasPrefix(body, "(forall") {
				body = body[7:] // the hint's own quantifier does not count
			}
			if pairwiseRe.MatchString(body) {
				vc.emitScope = vc.curScope + 1
			}
			vc.assumeG(reach, g)
			vc.emitScope = 0
		case "use", "useif":
			g := vc.safeTr(fr, func() string { return e.useLemma(fr, reach, h, where) }, h.Src)
			vc.assumeG(reach, g)
		case "forget":
			if fr != nil && fr.callLines[1] > fr.callLines[0] {
				for i := fr.callLines[0]; i < fr.callLines[1] && i < len(vc.lineScope); i++ {
					if strings.HasPrefix(vc.lines[i], "(assert") && strings.Contains(vc.lines[i], "(forall") {
						vc.lineScope[i] = blockScope
					}
				}
			}
		case "let":
			// a named abbreviation: a fresh constant equal to the expression's current value
			var v Val
			okv := true
			func() {
				defer func() {
					if r := recover(); r != nil {
						if se, is := r.(specErr); is {
							vc.specErrors = append(vc.specErrors, fmt.Sprintf("%s: let %s: %s", vc.unit, h.Name, se.msg))
							okv = false
							return
						}
						panic(r)
					}
				}()
				v = e.trVal(h.E)
			}()
			if okv && v.S != "" {
				if !(isInt(v.ty()) && len(v.S) < 80) {
					v.S = vc.define("let_"+h.Name, vc.S.tySort(v.ty()), v.S)
				}
				if env.names == nil {
					env.names = map[string]Val{}
				}
				env.names[h.Name] = v
				if fr != nil {
					fr.names[h.Name] = v
				}
			}
		case "set":
			t := vc.safeTr(fr, func() string { s, _ := e.tr(h.E); return s }, h.Src)
			gv := vc.P.ghosts[h.Name]
			if gv == nil || gv.Const {
				vc.specErrors = append(vc.specErrors, "set of unknown ghost variable "+h.Name)
				continue
			}
			st.ghosts[h.Name] = vc.define("g_"+h.Name, vc.S.tySort(vc.tyOfTypeExprL(gv.Type, true)), t)
		case "havoc":
			gv := vc.P.ghosts[h.Name]
			if gv == nil || gv.Const {
				vc.specErrors = append(vc.specErrors, "havoc of unknown ghost variable "+h.Name)
				continue
			}
			st.ghosts[h.Name] = vc.fresh("g_"+h.Name, vc.S.tySort(vc.tyOfTypeExprL(gv.Type, true)))
		}
	}
}

var pairwiseRe = regexp.MustCompile(`\((forall|exists) \(\([^ ]+ [^()]+\) \([^ ]+ [^()]+\)`)

func (vc *VC) countHint(fr *Frame, where string) int {
	if fr != nil {
		return fr.count("hint@" + where)
	}
	vc.hintCount++
	return vc.hintCount
}

// hintFormula: unfold F(args)  or  unfold forall x T :: F(args)
func (e *Env) hintFormula(x Expr, unfold bool) string {
	vc := e.vc
	if q, ok := x.(*Quant); ok && q.Forall {
		n := e
		var decl []string
		for _, b := range q.Vars {
			ty := vc.tyOfTypeExprL(b.Type, true)
			vc.nfresh++
			vn := fmt.Sprintf("%s!q%d", mangle(b.Name), vc.nfresh)
			decl = append(decl, "("+vn+" "+vc.S.tySort(ty)+")")
			bv := Val{S: vn}
			if ty.G != nil {
				bv.T = ty.G
			} else {
				t2 := ty
				bv.Ty = &t2
			}
			n = n.push(b.Name, bv)
		}
		c, ok := q.Body.(*Call)
		if !ok {
			specFail("unfold/use expects a call")
		}
		lhs, _ := n.tr(c)
		body := n.unfoldEq(c)
		return "(forall (" + strings.Join(decl, " ") + ") (! " + body + " :pattern (" + lhs + ") :qid unfold_" + mangle(strings.SplitN(strings.TrimPrefix(lhs, "("), " ", 2)[0]) + "))"
	}
	c, ok := x.(*Call)
	if !ok {
		specFail("unfold expects a call")
	}
	return e.unfoldEq(c)
}

// useLemma instantiates a lemma. Ground instance: the lemma's requires become obligations.
// Quantified instance (use forall x T :: L(args)): assumed as a universally quantified implication.
func (e *Env) useLemma(fr *Frame, reach string, h *Hint, where string) string {
	vc := e.vc
	x := h.E
	n := e
	var decl []string
	if q, ok := x.(*Quant); ok && q.Forall {
		for _, b := range q.Vars {
			ty := vc.tyOfTypeExprL(b.Type, true)
			vc.nfresh++
			vn := fmt.Sprintf("%s!q%d", mangle(b.Name), vc.nfresh)
			decl = append(decl, "("+vn+" "+vc.S.tySort(ty)+")")
			bv := Val{S: vn}
			if ty.G != nil {
				bv.T = ty.G
			} else {
				t2 := ty
				bv.Ty = &t2
			}
			n = n.push(b.Name, bv)
		}
		x = q.Body
	}
	c, ok := x.(*Call)
	if !ok {
		specFail("use expects a lemma call")
	}
	l, ok := vc.P.lemmas[c.Fun]
	if !ok {
		specFail("unknown lemma %s", c.Fun)
	}
	if len(l.Params) != len(c.Args) {
		specFail("lemma %s: expected %d arguments", c.Fun, len(l.Params))
	}
	vc.lemmasUsed[c.Fun] = true
	if l.Assumed {
		vc.trusted["assumed lemma "+l.Name] = true
	}
	le := &Env{vc: vc, pure: true, st: n.st, bound: append([]boundVar{}, n.bound...)}
	for i, p := range l.Params {
		pt := vc.tyOfTypeExprL(p.Type, true)
		av := n.trVal(c.Args[i])
		s := n.coerceArg(av, pt, c.Args[i])
		bv := Val{S: s}
		if pt.G != nil {
			bv.T = pt.G
		} else {
			t2 := pt
			bv.Ty = &t2
		}
		le.bound = append(le.bound, boundVar{p.Name, bv})
	}
	var reqs, enss []string
	for _, r := range l.Requires {
		reqs = append(reqs, le.trBool(r))
	}
	for _, r := range l.Ensures {
		enss = append(enss, le.trBool(r))
	}
	ens := "true"
	if len(enss) == 1 {
		ens = enss[0]
	} else if len(enss) > 1 {
		ens = "(and " + strings.Join(enss, " ") + ")"
	}
	if len(decl) > 0 || h.Kind == "useif" {
		body := ens
		if len(reqs) > 0 {
			body = "(=> (and " + strings.Join(reqs, " ") + " true) " + ens + ")"
		}
		if len(decl) == 0 {
			return body
		}
		return "(forall (" + strings.Join(decl, " ") + ") " + body + ")"
	}
	for i, r := range reqs {
		label := h.Label
		if label == "" {
			label = fmt.Sprint(vc.countHint(fr, where+"/use"))
		}
		name := vc.unit + "/use@" + where + "#" + label + "/" + l.Name + fmt.Sprintf("/req%d", i+1)
		var props []string
		if fr != nil {
			name = fr.oblName("use@" + where + "#" + label + "/" + l.Name + fmt.Sprintf("/req%d", i+1))
			props = clauseProps(h.Props, fr.defProps())
		} else {
			props = clauseProps(h.Props, vc.unitProps)
		}
		vc.oblige(name, "lemma-pre", props, reach, r, "requires of lemma "+l.Name+": "+l.Requires[i].String())
	}
	return ens
}

func (vc *VC) ghostPoint(fr *Frame, st *State, reach, when, what string, ordinal int, callee string) {
	if vc.replayMode {
		return
	}
	top := fr
	if top.spec == nil {
		return
	}
	for _, gp := range top.spec.Ghosts {
		if gp.When != when || gp.What != what {
			continue
		}
		if gp.What == "call" {
			if gp.Callee != "" && !strings.HasSuffix(callee, gp.Callee) {
				continue
			}
		}
		if gp.Ordinal != ordinal && gp.Ordinal != -1 {
			continue
		}
		env := vc.envFor(fr, st)
		for _, li := range fr.curLoops {
			vc.loopHashBody(fr, li, st, env)
		}
		vc.runHints(fr, st, reach, gp.Hints, env, fmt.Sprintf("%s-%s%d%s", when, what, ordinal, shortKey(callee)))
	}
}

// inside the loop body #i is the index of the element being processed plus... we expose #idx = current index
func (vc *VC) loopHashBody(fr *Frame, li *loopInfo, st *State, env *Env) {
	for _, k := range []string{"i", "idx", "len", "coll", "it", "ord", "n"} {
		delete(env.hash, k)
	}
	defer func() {
		for _, k := range []string{"i", "idx", "len", "coll", "it", "ord", "n"} {
			if v, ok := env.hash[k]; ok {
				env.hash[fmt.Sprintf("%s%d", k, li.ordinal)] = v
			}
		}
	}()
	if li.rangeIdx != nil {
		if c := fr.cells[li.rangeIdx]; c != nil {
			if t, ok := st.locals[c]; ok {
				env.hash["idx"] = Val{T: tInt, S: t}
				env.hash["i"] = Val{T: tInt, S: t} // in the body, #i = number of elements fully processed = current index
			}
		}
		if li.rangeLen != nil {
			if v, ok := fr.regs[li.rangeLen]; ok {
				env.hash["len"] = v
			}
		}
		if li.rangeColl != nil {
			if v, ok := fr.regs[li.rangeColl]; ok {
				env.hash["coll"] = v
			}
		}
	}
	if li.idxCell != nil {
		if c := fr.cells[li.idxCell]; c != nil {
			if t, ok := st.locals[c]; ok {
				env.hash["idx"] = Val{T: tInt, S: t}
				env.hash["i"] = Val{T: tInt, S: t}
			}
		}
		if li.rangeLen != nil {
			if v, ok := fr.regs[li.rangeLen]; ok {
				env.hash["len"] = v
			}
		}
		if li.rangeColl != nil {
			if v, ok := fr.regs[li.rangeColl]; ok {
				env.hash["coll"] = v
			}
		}
	}
	if li.rng != nil {
		if it := fr.iters[li.rng]; it != nil {
			if t, ok := st.locals[it.it]; ok {
				// in the body the iterator has already advanced: #it-1 is the current position
				env.hash["it"] = Val{T: tInt, S: "(- " + t + " 1)"}
			}
			k := goTy(it.mt.Key())
			env.hash["ord"] = Val{S: it.ord, Ty: &Ty{L: "seq", Elem: &k}}
			env.hash["n"] = Val{T: tInt, S: it.n}
		}
	}
}

// ---------------------------------------------------------------------------
// type facts for havocked cells (deferred until the new alloc is known)
// ---------------------------------------------------------------------------

type pendingFact struct {
	t    types.Type
	term string
}

func (vc *VC) assumeTypeFactsLater(st *State, t types.Type, term string) {
	vc.pending = append(vc.pending, pendingFact{t, term})
}

func (vc *VC) flushTypeFacts(st *State) {
	for _, p := range vc.pending {
		vc.assumeTypeFacts(st, "", p.t, p.term)
	}
	vc.pending = nil
}

// ---------------------------------------------------------------------------
// modifies / frame
// ---------------------------------------------------------------------------

type modTarget struct {
	heap  string // heap name
	ref   string // "" = whole heap
	addr  *Addr  // for point targets with a path
	whole bool
}

// modTargets evaluates the modifies clause of a spec in env (pre-state)
func (vc *VC) modTargets(env *Env, spec *FuncSpec) []modTarget {
	var out []modTarget
	for _, m := range spec.Modifies {
		if c, ok := m.(*Call); ok {
			switch c.Fun {
			case "heap":
				t := vc.typeArg(c.Args[0])
				out = append(out, modTarget{heap: vc.cellHeapName(t), whole: true})
				continue
			case "arrays":
				t := vc.typeArg(c.Args[0])
				out = append(out, modTarget{heap: vc.arrHeapName(t), whole: true})
				continue
			case "maps":
				k, v := vc.typeArg(c.Args[0]), vc.typeArg(c.Args[1])
				out = append(out, modTarget{heap: vc.mapHeapName(types.NewMap(k, v)), whole: true})
				continue
			case "elems":
				v := env.trVal(c.Args[0])
				sl, ok := under(v.T).(*types.Slice)
				if !ok {
					specFail("modifies elems(non-slice)")
				}
				out = append(out, modTarget{heap: vc.arrHeapName(sl.Elem()), ref: "(s_arr " + v.S + ")"})
				continue
			case "arrayobj":
				// arrayobj(Type, ref)
				t := vc.typeArg(c.Args[0])
				r, _ := env.tr(c.Args[1])
				out = append(out, modTarget{heap: vc.arrHeapName(t), ref: r})
				continue
			case "mapof":
				v := env.trVal(c.Args[0])
				mt, ok := under(v.T).(*types.Map)
				if !ok {
					specFail("modifies mapof(non-map)")
				}
				out = append(out, modTarget{heap: vc.mapHeapName(mt), ref: v.S})
				continue
			case "ghost":
				continue
			}
		}
		a := env.trAddr(m)
		switch a.Kind {
		case aLocal:
			out = append(out, modTarget{addr: a})
		case aHeap:
			out = append(out, modTarget{heap: vc.cellHeapName(a.BaseT), ref: a.Ref, addr: a})
		case aElem:
			out = append(out, modTarget{heap: vc.arrHeapName(a.BaseT), ref: a.Ref, addr: a})
		}
	}
	return out
}

func (vc *VC) typeArg(e Expr) types.Type {
	switch x := e.(type) {
	case *Ident:
		t := vc.P.lookupType(x.Name, vc.curPkg)
		if t == nil {
			specFail("unknown type %s", x.Name)
		}
		return t
	case *Select:
		if id, ok := x.X.(*Ident); ok {
			t := vc.P.lookupType(id.Name+"."+x.Name, vc.curPkg)
			if t == nil {
				specFail("unknown type %s.%s", id.Name, x.Name)
			}
			return t
		}
	case *Unary:
		if x.Op == "*" {
			return types.NewPointer(vc.typeArg(x.X))
		}
	case *StrLit:
		return vc.parseGoType(x.V)
	}
	specFail("type expected: %s", e)
	return nil
}

// frameCheck: a write to addr must be allowed by the modifies clause of the function under verification
func (vc *VC) frameCheck(fr *Frame, st *State, reach string, a *Addr, in ssa.Instruction) {
	top := fr
	for top.parent != nil {
		top = top.parent
	}
	if !top.modCheck || a.Kind == aLocal || a.Fresh {
		return
	}
	var heap string
	switch {
	case a.IsMap:
		heap = vc.mapHeapName(a.BaseT.(*types.Map))
	case a.Kind == aHeap:
		heap = vc.cellHeapName(a.BaseT)
	case a.Kind == aElem:
		heap = vc.arrHeapName(a.BaseT)
	}
	goal := vc.allowedWrite(top, heap, a.Ref)
	if goal == "true" {
		return
	}
	if top.frameAssumed {
		vc.assumeG(reach, goal)
		return
	}
	n := top.count("frame")
	vc.oblige(top.oblName(fmt.Sprintf("frame#%d", n)), "frame", top.defProps(), reach, goal, "write outside the modifies clause at "+posOf(fr, in)+": "+in.String())
}

func (vc *VC) allowedWrite(top *Frame, heap, ref string) string {
	alts := []string{"(>= " + ref + " " + top.entry.alloc + ")"}
	if strings.HasPrefix(heap, "A:") {
		// array object 0 is the backing array of nil slices: it has no elements, nothing can be written to it
		alts = append(alts, "(= "+ref+" 0)")
	}
	for _, m := range top.modTargets {
		if m.heap != heap {
			continue
		}
		if m.whole {
			return "true"
		}
		alts = append(alts, "(= "+ref+" "+m.ref+")")
	}
	return "(or " + strings.Join(alts, " ") + ")"
}

// autoFrameAssume: at a loop head, everything outside the modifies clause that existed at entry is unchanged
func (vc *VC) autoFrameAssume(fr *Frame, st *State, reach string) {
	top := fr
	for top.parent != nil {
		top = top.parent
	}
	if !top.modCheck {
		return
	}
	for _, hn := range sortedKeys(st.heaps) {
		cur := st.heaps[hn]
		old, ok := top.entry.heaps[hn]
		if !ok {
			old = vc.heap(top.entry, hn)
		}
		if cur == old {
			continue
		}
		whole := false
		var pts []string
		for _, m := range top.modTargets {
			if m.heap == hn {
				if m.whole {
					whole = true
				} else {
					pts = append(pts, "(not (= r "+m.ref+"))")
				}
			}
		}
		if whole {
			continue
		}
		cond := "(and (< r " + top.entry.alloc + ") " + strings.Join(pts, " ") + ")"
		vc.assumeG(reach, fmt.Sprintf("(forall ((r Int)) (! (=> %s (= (select %s r) (select %s r))) :pattern ((select %s r))))", cond, cur, old, cur))
	}
}

// ---------------------------------------------------------------------------
// calls
// ---------------------------------------------------------------------------

func (vc *VC) staticFn(fr *Frame, v ssa.Value, depth int) *ssa.Function {
	if depth > 6 {
		return nil
	}
	switch x := v.(type) {
	case *ssa.Function:
		return x
	case *ssa.MakeClosure:
		return x.Fn.(*ssa.Function)
	case *ssa.ChangeType:
		return vc.staticFn(fr, x.X, depth+1)
	case *ssa.UnOp:
		if x.Op != token.MUL {
			return nil
		}
		switch a := x.X.(type) {
		case *ssa.Alloc:
			return vc.singleStoreFn(fr, a, depth)
		case *ssa.FreeVar:
			// find the binding in the parent
			fn := a.Parent()
			par := fn.Parent()
			if par == nil {
				return nil
			}
			idx := -1
			for i, fv := range fn.FreeVars {
				if fv == a {
					idx = i
				}
			}
			for _, b := range par.Blocks {
				for _, in := range b.Instrs {
					if mc, ok := in.(*ssa.MakeClosure); ok && mc.Fn == fn && idx < len(mc.Bindings) {
						if al, ok := mc.Bindings[idx].(*ssa.Alloc); ok {
							return vc.singleStoreFn(fr, al, depth)
						}
					}
				}
			}
		}
	case *ssa.Parameter:
		// specialisation binding
		if fr != nil {
			if f, ok := fr.bind[x.Name()]; ok {
				return f
			}
		}
	}
	return nil
}

func (vc *VC) singleStoreFn(fr *Frame, a *ssa.Alloc, depth int) *ssa.Function {
	var stores []*ssa.Store
	var visit func(fn *ssa.Function)
	count := 0
	visit = func(fn *ssa.Function) {
		for _, b := range fn.Blocks {
			for _, in := range b.Instrs {
				if s, ok := in.(*ssa.Store); ok {
					if s.Addr == a {
						stores = append(stores, s)
						count++
					}
				}
			}
		}
	}
	visit(a.Parent())
	// stores through captured references in nested closures
	for _, an := range a.Parent().AnonFuncs {
		for _, b := range an.Blocks {
			for _, in := range b.Instrs {
				if s, ok := in.(*ssa.Store); ok {
					if fv, ok := s.Addr.(*ssa.FreeVar); ok && fv.Name() == a.Comment {
						count++
					}
				}
			}
		}
	}
	if count != 1 || len(stores) != 1 {
		// a parameter spilled to its cell: *t0 = param
		return nil
	}
	return vc.staticFn(fr, stores[0].Val, depth+1)
}

func calleeName(common *ssa.CallCommon) string {
	if common.IsInvoke() {
		return common.Method.Name()
	}
	if f := common.StaticCallee(); f != nil {
		return f.Name()
	}
	return common.Value.Name()
}

func (vc *VC) execCall(fr *Frame, st *State, reach string, instr ssa.Instruction, common *ssa.CallCommon, preArgs []Val, preFn *Val) Val {
	var args []Val
	if preArgs != nil {
		args = preArgs
	} else {
		for _, a := range common.Args {
			args = append(args, vc.operand(fr, a))
		}
	}
	sig := common.Signature()
	resT := sig.Results()
	// builtins
	if bi, ok := common.Value.(*ssa.Builtin); ok {
		return vc.execBuiltin(fr, st, reach, instr, bi, common, args)
	}
	pos := posOf(fr, instr)
	// #arg0, #arg1, ... name the arguments of the call in its 'before' / 'after' ghost blocks
	fr.pendingArgs = args
	fr.lastRes = Val{}
	// interface method call
	if common.IsInvoke() {
		recv := vc.operand(fr, common.Value)
		if preFn != nil && preFn.S != "" {
			recv = *preFn
		}
		iface := typeKey(common.Value.Type())
		key := iface + "." + common.Method.Name()
		ms := vc.P.methods[key]
		n := fr.ordinal[instr]
		vc.safety(fr, "nil", reach, "(not (= (i_typ "+vc.valTerm(recv)+") 0))", "method call on nil interface at "+pos)
		vc.ghostPoint(fr, st, reach, "before", "call", n, common.Method.Name())
		fr.callPre = st.clone()
		var res Val
		if impls := vc.implsOf(common.Value.Type(), common.Method.Name()); ms == nil && len(impls) > 0 {
			res = vc.applyDispatch(fr, st, reach, impls, recv, args, instr, resT, key, n)
		} else if ms == nil {
			vc.notes = append(vc.notes, fmt.Sprintf("%s: interface call %s without contract: everything reachable is havocked", fr.key, key))
			vc.frameCheckAll(fr, st, reach, instr)
			vc.havocAllForCall(fr, st, args)
			res = vc.freshResults(st, resT, calleeName(common))
		} else {
			names := map[string]Val{}
			pn := ms.Spec.ParamNames
			all := append([]Val{recv}, args...)
			for i, a := range all {
				if i < len(pn) {
					names[pn[i]] = a
				}
			}
			res = vc.applySpec(fr, st, reach, ms.Spec, nil, names, nil, instr, resT, key, n)
		}
		fr.lastRes = res
		vc.ghostPoint(fr, st, reach, "after", "call", n, common.Method.Name())
		return res
	}
	// function value
	var fnv Val
	if preFn != nil {
		fnv = *preFn
	} else {
		fnv = vc.operand(fr, common.Value)
	}
	callee := common.StaticCallee()
	if callee == nil {
		callee = fnv.Fn
	}
	if callee == nil {
		callee = vc.staticFn(fr, common.Value, 0)
	}
	if callee != nil && callee.Synthetic != "" && callee.Blocks == nil {
		callee = nil
	}
	if callee == nil {
		// dynamic call through a func value
		n := fr.ordinal[instr]
		var tcName string
		top := fr.topFrame()
		if top.spec != nil && top.spec.DynCalls != nil {
			tcName = top.spec.DynCalls[n]
		}
		if tcName == "" && top == fr && top.spec != nil && len(top.spec.ParamCons) > 0 {
			// a call through a parameter declared with "funcparam p T"
			q := ""
			switch x := common.Value.(type) {
			case *ssa.Parameter:
				q = x.Name()
			case *ssa.UnOp:
				if al, ok := x.X.(*ssa.Alloc); ok {
					q = al.Comment
				}
			}
			tcName = top.spec.ParamCons[q]
		}
		if tcName == "" {
			if nt, ok := types.Unalias(common.Value.Type()).(*types.Named); ok {
				tcName = shortPkg(nt.Obj().Pkg()) + "." + nt.Obj().Name()
			}
		}
		vc.safety(fr, "nilfunc", reach, "(not (= "+vc.valTerm(fnv)+" 0))", "call of nil function value at "+pos)
		vc.ghostPoint(fr, st, reach, "before", "dyncall", n, "")
		var res Val
		if tc := vc.P.typeCons[tcName]; tc != nil {
			names := map[string]Val{}
			for i, a := range args {
				if i < len(tc.Params) {
					names[tc.Params[i]] = a
				}
			}
			names["self"] = fnv
			res = vc.applySpec(fr, st, reach, tc.Spec, nil, names, &fnv, instr, resT, "dyn:"+tcName, n)
		} else {
			vc.notes = append(vc.notes, fmt.Sprintf("%s: dynamic call #%d (%s) without type contract: everything reachable is havocked", fr.key, n, common.Value.Type()))
			vc.frameCheckAll(fr, st, reach, instr)
			vc.havocAllForCall(fr, st, args)
			res = vc.freshResults(st, resT, "dyn")
		}
		fr.lastRes = res
		vc.ghostPoint(fr, st, reach, "after", "dyncall", n, "")
		return res
	}
	key := vc.P.fnKeys[callee]
	if key == "" {
		key = vc.P.funcKey(callee)
	}
	// a method expression T.M is called through a synthetic thunk with the same parameters (receiver first)
	key = strings.TrimSuffix(key, "$thunk")
	n := fr.ordinal[instr]
	_, viaParam := common.Value.(*ssa.Parameter)
	if up, ok := common.Value.(*ssa.UnOp); ok {
		// parameter spilled to its cell and reloaded
		if al, ok := up.X.(*ssa.Alloc); ok {
			for _, p := range fr.fn.Params {
				if p.Name() == al.Comment {
					if _, bound := fr.topFrame().bind[p.Name()]; bound {
						viaParam = true
					}
				}
			}
		}
	}
	what := "call"
	if viaParam {
		what = "dyncall"
	}
	vc.ghostPoint(fr, st, reach, "before", what, n, key)
	fr.callPre = st.clone()
	var res Val
	variant := ""
	top := fr.topFrame()
	if top.spec != nil && top.spec.CallUses != nil {
		if v, ok := top.spec.CallUses[fmt.Sprintf("%s#%d", shortKey(key), n)]; ok {
			variant = v
		}
	}
	spec := vc.P.specFor(key, variant)
	if variant != "" && spec == nil {
		vc.specErrors = append(vc.specErrors, fmt.Sprintf("%s: no variant %s of %s", fr.key, variant, key))
	}
	if spec != nil && !spec.Inline {
		vc.checkFuncArgs(fr, spec, callee, common, key)
	}
	switch {
	case spec != nil && !spec.Inline:
		names := map[string]Val{}
		if len(spec.ParamNames) > 0 {
			for i, a := range args {
				if i < len(spec.ParamNames) {
					names[spec.ParamNames[i]] = a
				}
			}
		} else {
			for i, p := range callee.Params {
				if i < len(args) {
					names[p.Name()] = args[i]
				}
			}
			for i, pn := range spec.AliasParams {
				if i < len(args) {
					names[pn] = args[i]
				}
			}
		}
		res = vc.applySpec(fr, st, reach, spec, callee, names, &fnv, instr, resT, key, n)
	case callee.Blocks != nil && vc.P.repoPkgs[pkgOf(callee)] && vc.canInline(fr, callee):
		res = vc.inlineCall(fr, st, reach, callee, args, &fnv, instr)
	default:
		if callee.Blocks != nil && vc.P.repoPkgs[pkgOf(callee)] {
			vc.notes = append(vc.notes, fmt.Sprintf("%s: call to %s without contract: everything reachable is havocked", fr.key, key))
		} else if externRefFree(callee, common) {
			// A-EXTPURE: a library function without contract that is handed no reference (only numbers, strings, times
			// and boxed values of these) cannot reach an object of the repository; it is given an unknown result and no
			// effect on the state the contracts talk about (process-wide effects - files, standard output, exit - are
			// excluded by package / name, see externRefFree)
			vc.trusted["unmodelled external call "+key+" with reference-free arguments: unknown result, no effect on repository state (A-EXTPURE)"] = true
			res = vc.freshResults(st, resT, callee.Name())
			fr.lastRes = res
			vc.ghostPoint(fr, st, reach, "after", what, n, key)
			return res
		} else {
			vc.notes = append(vc.notes, fmt.Sprintf("%s: unmodelled external call %s: everything reachable is havocked", fr.key, key))
			vc.unmodelled[key] = true
		}
		vc.frameCheckAll(fr, st, reach, instr)
		vc.havocAllForCall(fr, st, args)
		res = vc.freshResults(st, resT, callee.Name())
	}
	fr.lastRes = res
	vc.ghostPoint(fr, st, reach, "after", what, n, key)
	return res
}

func pkgOf(fn *ssa.Function) *types.Package {
	if fn.Pkg != nil {
		return fn.Pkg.Pkg
	}
	if fn.Parent() != nil {
		return pkgOf(fn.Parent())
	}
	return nil
}

func (fr *Frame) topFrame() *Frame {
	t := fr
	for t.parent != nil {
		t = t.parent
	}
	return t
}

func (fr *Frame) countCall(name string) int {
	fr.callOrd[name]++
	return fr.callOrd[name]
}

func (vc *VC) frameCheckAll(fr *Frame, st *State, reach string, in ssa.Instruction) {
	top := fr.topFrame()
	if !top.modCheck {
		return
	}
	n := top.count("frame")
	vc.oblige(top.oblName(fmt.Sprintf("frame#%d", n)), "frame", top.defProps(), reach, "false", "call that may modify anything inside a function with a modifies clause at "+posOf(fr, in)+": "+in.String())
}

// havocAllForCall: an unknown callee may change every heap and every local whose address it receives
func (vc *VC) havocAllForCall(fr *Frame, st *State, args []Val) {
	vc.havocForCall(fr, st, args, false)
}

func (vc *VC) havocForCall(fr *Frame, st *State, args []Val, keepGhosts bool) {
	for _, a := range args {
		if a.A != nil && a.A.Kind == aLocal {
			c := a.A.Cell
			st.locals[c] = vc.fresh("hv_"+c.Name, vc.S.sortOf(c.T))
		}
	}
	if keepGhosts {
		vc.havocHeaps(st)
	} else {
		vc.havocAll(st)
	}
	na := vc.fresh("alloc", "Int")
	vc.assume("(>= " + na + " " + st.alloc + ")")
	st.alloc = na
}

func (vc *VC) freshResults(st *State, resT *types.Tuple, name string) Val {
	if resT.Len() == 0 {
		return Val{}
	}
	if resT.Len() == 1 {
		t := resT.At(0).Type()
		r := vc.fresh("r_"+name, vc.S.sortOf(t))
		vc.assumeTypeFacts(st, "", t, r)
		return Val{T: t, S: r}
	}
	var tup []Val
	for i := 0; i < resT.Len(); i++ {
		t := resT.At(i).Type()
		r := vc.fresh(fmt.Sprintf("r%d_%s", i, name), vc.S.sortOf(t))
		vc.assumeTypeFacts(st, "", t, r)
		tup = append(tup, Val{T: t, S: r})
	}
	return Val{T: resT, Tup: tup}
}

func (vc *VC) resultNames(spec *FuncSpec, callee *ssa.Function, n int) []string {
	if len(spec.Returns) > 0 {
		return spec.Returns
	}
	var out []string
	if callee != nil {
		res := callee.Signature.Results()
		named := true
		for i := 0; i < res.Len(); i++ {
			if res.At(i).Name() == "" || res.At(i).Name() == "_" {
				named = false
			}
			out = append(out, res.At(i).Name())
		}
		if named && res.Len() > 0 {
			return out
		}
	}
	out = nil
	if n == 1 {
		return []string{"result"}
	}
	for i := 0; i < n; i++ {
		out = append(out, fmt.Sprintf("result%d", i))
	}
	return out
}

// applySpec uses a contract at a call site: check requires, havoc modifies, assume ensures.
func (vc *VC) applySpec(fr *Frame, st *State, reach string, spec *FuncSpec, callee *ssa.Function, names map[string]Val, cloVal *Val, instr ssa.Instruction, resT *types.Tuple, key string, ordinal int) Val {
	if spec.Assumed {
		vc.trusted["assumed contract of "+key] = true
	}
	vc.specsUsed[key] = true
	pre := st.clone()
	env := &Env{vc: vc, st: pre, old: pre, names: names, hash: map[string]Val{}, paramsFirst: true}
	if len(spec.Bind) > 0 {
		env.binds = map[string]*ssa.Function{}
		for pn, fk := range spec.Bind {
			if f := vc.P.fns[fk]; f != nil {
				env.binds[pn] = f
			}
		}
	}
	if callee != nil && len(callee.FreeVars) > 0 && cloVal != nil {
		env.cloFn = callee
		env.cloVal = cloVal
	}
	// lets
	for _, l := range spec.Lets {
		l := l
		var v Val
		ok := true
		func() {
			defer func() {
				if r := recover(); r != nil {
					if se, is := r.(specErr); is {
						vc.specErrors = append(vc.specErrors, fmt.Sprintf("%s: contract of %s: %s", fr.key, key, se.msg))
						ok = false
						return
					}
					panic(r)
				}
			}()
			v = env.trVal(l.E)
		}()
		if ok {
			names[l.Name] = v
		}
	}
	pos := posOf(fr, instr)
	for i, r := range spec.Requires {
		if r.Free {
			continue
		}
		r := r
		name := r.Name
		if name == "" {
			name = fmt.Sprint(i + 1)
		}
		g := vc.safeTr(fr, func() string { return env.trBool(r.E) }, r.Src)
		props := clauseProps(r.Props, fr.defProps())
		vc.oblige(fr.oblName(fmt.Sprintf("pre@%s#%d/%s", shortKey(key), ordinal, name)), "pre", props, reach, g, "precondition of "+key+" at "+pos+": "+r.Src)
	}
	// termination of direct recursion
	top := fr.topFrame()
	if callee != nil && callee == top.fn && top.spec != nil && top.spec.Decreases != nil && top.decEntry != "" {
		d := vc.safeTr(fr, func() string { s, _ := env.tr(spec.Decreases); return s }, "decreases")
		vc.oblige(fr.oblName(fmt.Sprintf("term/rec#%d", fr.count("term/rec"))), "term", []string{"C08"}, reach, "(and (<= 0 "+top.decEntry+") (< "+d+" "+top.decEntry+"))", "recursive call must decrease "+spec.Decreases.String())
	} else if callee != nil && callee == top.fn && (top.spec == nil || top.spec.Decreases == nil) {
		vc.notes = append(vc.notes, fr.key+": recursive call without decreases clause (termination not proved)")
	}
	// modifies
	var targets []modTarget
	func() {
		defer func() {
			if r := recover(); r != nil {
				if se, is := r.(specErr); is {
					vc.specErrors = append(vc.specErrors, fmt.Sprintf("%s: modifies of %s: %s", fr.key, key, se.msg))
					return
				}
				panic(r)
			}
		}()
		targets = vc.modTargets(env, spec)
	}()
	if spec.ModAll {
		vc.frameCheckAll(fr, st, reach, instr)
		var as []Val
		for _, v := range names {
			as = append(as, v)
		}
		// a contract with "modifies *" may change every heap; ghost variables only if listed as ghost(...)
		vc.havocForCall(fr, st, as, true)
	} else {
		// frame conformance of the caller
		if top.modCheck {
			for _, t := range targets {
				if t.addr != nil && t.addr.Kind == aLocal {
					continue
				}
				var goal string
				if t.whole {
					goal = "false"
					for _, m := range top.modTargets {
						if m.heap == t.heap && m.whole {
							goal = "true"
						}
					}
				} else {
					goal = vc.allowedWrite(top, t.heap, t.ref)
				}
				if goal != "true" && top.frameAssumed {
					vc.assumeG(reach, goal)
				} else if goal != "true" {
					n := top.count("frame")
					vc.oblige(top.oblName(fmt.Sprintf("frame#%d", n)), "frame", top.defProps(), reach, goal, "callee "+key+" may write outside the caller's modifies clause at "+pos)
				}
			}
		}
		// group point targets per heap
		for _, t := range targets {
			switch {
			case t.addr != nil && t.addr.Kind == aLocal:
				a := t.addr
				nv := vc.fresh("m_"+a.Cell.Name, vc.S.sortOf(vc.addrType(a)))
				vc.store(st, Val{A: a}, nv)
			case t.whole:
				vc.havocHeap(st, t.heap)
			case t.addr != nil:
				a := t.addr
				nv := vc.fresh("m_"+mangle(t.heap), vc.S.sortOf(vc.addrType(a)))
				vc.store(st, Val{A: a, T: types.NewPointer(vc.addrType(a))}, nv)
			default:
				// whole object at ref in heap
				h := vc.heap(st, t.heap)
				srt := vc.heapSort[t.heap]
				// element sort: strip "(Array Int " prefix
				es := strings.TrimSuffix(strings.TrimPrefix(srt, "(Array Int "), ")")
				nv := vc.fresh("m_"+mangle(t.heap), es)
				if strings.HasPrefix(t.heap, "A:") {
					// the (empty) backing array of a nil slice cannot be written
					vc.setHeap(st, t.heap, "(ite (= "+t.ref+" 0) "+h+" (store "+h+" "+t.ref+" "+nv+"))")
				} else {
					vc.setHeap(st, t.heap, "(store "+h+" "+t.ref+" "+nv+")")
				}
			}
		}
		if !spec.Pure {
			na := vc.fresh("alloc", "Int")
			vc.assume("(>= " + na + " " + st.alloc + ")")
			st.alloc = na
		}
	}
	// ghost variables: modifies ghost(name, ...)
	for _, m := range spec.Modifies {
		if c, ok := m.(*Call); ok && c.Fun == "ghost" {
			for _, a := range c.Args {
				if id, ok := a.(*Ident); ok {
					if gv := vc.P.ghosts[id.Name]; gv != nil && !gv.Const {
						st.ghosts[id.Name] = vc.fresh("g_"+id.Name, vc.S.tySort(vc.tyOfTypeExprL(gv.Type, true)))
					}
				}
			}
		}
	}
	// results
	res := vc.freshResults(st, resT, shortKey(key))
	post := map[string]Val{}
	for k, v := range names {
		post[k] = v
	}
	rn := vc.resultNames(spec, callee, resT.Len())
	if resT.Len() == 1 && len(rn) >= 1 {
		post[rn[0]] = res
		post["result"] = res
	} else {
		for i := 0; i < resT.Len() && i < len(rn); i++ {
			post[rn[i]] = res.Tup[i]
		}
	}
	env2 := &Env{vc: vc, st: st, old: pre, names: post, hash: map[string]Val{}, paramsFirst: true, cloFn: env.cloFn, cloVal: env.cloVal, binds: env.binds}
	ensStart := len(vc.lines)
	for _, c := range spec.Ensures {
		c := c
		g := vc.safeTr(fr, func() string { return env2.trBool(c.E) }, c.Src)
		vc.assumeNamed(reach, g)
	}
	fr.callLines = [2]int{ensStart, len(vc.lines)}
	return res
}

// ---------------------------------------------------------------------------
// builtins
// ---------------------------------------------------------------------------

func (vc *VC) execBuiltin(fr *Frame, st *State, reach string, instr ssa.Instruction, bi *ssa.Builtin, common *ssa.CallCommon, args []Val) Val {
	switch bi.Name() {
	case "len":
		a := args[0]
		switch u := under(common.Args[0].Type()).(type) {
		case *types.Slice:
			return Val{T: tInt, S: "(s_len " + vc.valTerm(a) + ")"}
		case *types.Basic:
			return Val{T: tInt, S: "(slen " + vc.valTerm(a) + ")"}
		case *types.Map:
			ms := vc.S.mapSortGo(u)
			m := vc.valTerm(a)
			return Val{T: tInt, S: vc.define("maplen", "Int", fmt.Sprintf("(ite (= %s 0) 0 (%s__card (select %s %s)))", m, ms, vc.heap(st, vc.mapHeapName(u)), m))}
		case *types.Array:
			return Val{T: tInt, S: fmt.Sprint(u.Len())}
		case *types.Pointer:
			if at, ok := under(u.Elem()).(*types.Array); ok {
				return Val{T: tInt, S: fmt.Sprint(at.Len())}
			}
		case *types.Chan:
			return Val{T: tInt, S: vc.fresh("chanlen", "Int")}
		}
	case "cap":
		if _, ok := under(common.Args[0].Type()).(*types.Slice); ok {
			return Val{T: tInt, S: "(s_cap " + vc.valTerm(args[0]) + ")"}
		}
	case "append":
		return vc.execAppend(fr, st, reach, instr, common, args)
	case "delete":
		u := under(common.Args[0].Type()).(*types.Map)
		m := vc.valTerm(args[0])
		k := vc.valTerm(args[1])
		ms := vc.S.mapSortGo(u)
		hn := vc.mapHeapName(u)
		h := vc.heap(st, hn)
		rec := "(select " + h + " " + m + ")"
		vc.frameCheck(fr, st, reach, &Addr{Kind: aHeap, Ref: m, BaseT: u, IsMap: true}, instr)
		nrec := fmt.Sprintf("(mk_%s (store (%s__dom %s) %s false) (%s__val %s) (ite (select (%s__dom %s) %s) (- (%s__card %s) 1) (%s__card %s)))", ms, ms, rec, k, ms, rec, ms, rec, k, ms, rec, ms, rec)
		// delete on a nil map is a no-op
		vc.setHeap(st, hn, "(ite (= "+m+" 0) "+h+" (store "+h+" "+m+" "+nrec+"))")
		return Val{}
	case "ssa:wrapnilchk":
		return args[0]
	case "ssa:deferstack":
		return Val{T: common.Signature().Results().At(0).Type(), S: "0"}
	case "print", "println":
		return Val{}
	}
	vc.unsupportedf("%s: builtin %s", fr.key, bi.Name())
	return vc.freshResults(st, common.Signature().Results(), bi.Name())
}

func (vc *VC) execAppend(fr *Frame, st *State, reach string, instr ssa.Instruction, common *ssa.CallCommon, args []Val) Val {
	sl := under(common.Args[0].Type()).(*types.Slice)
	s := vc.valTerm(args[0])
	hn := vc.arrHeapName(sl.Elem())
	es := vc.S.sortOf(sl.Elem())
	// second argument is a slice (variadic pack or s2...)
	var addLen string
	var addAt func(j string) string
	if _, isStr := under(common.Args[1].Type()).(*types.Basic); isStr {
		vc.unsupportedf("%s: append(bytes, string...)", fr.key)
		return Val{T: common.Args[0].Type(), S: vc.fresh("append", "Slice")}
	}
	t := vc.valTerm(args[1])
	addLen = "(s_len " + t + ")"
	h0 := vc.heap(st, hn)
	addAt = func(j string) string { return "(select (select " + h0 + " (s_arr " + t + ")) " + j + ")" }
	// statically known small pack?
	k := -1
	if sv, ok := common.Args[1].(*ssa.Slice); ok {
		if pt, ok := under(sv.X.Type()).(*types.Pointer); ok {
			if at, ok := under(pt.Elem()).(*types.Array); ok {
				k = int(at.Len())
			}
		}
	}
	if c, ok := common.Args[1].(*ssa.Const); ok && c.Value == nil {
		k = 0
	}
	inplace := vc.fresh("inplace", "Bool")
	newLen := vc.define("app_len", "Int", "(+ (s_len "+s+") "+addLen+")")
	vc.assume("(=> " + inplace + " (<= " + newLen + " (s_cap " + s + ")))")
	vc.assume("(=> (= (s_arr " + s + ") 0) (not " + inplace + "))")
	vc.assume("(=> (> " + newLen + " (s_cap " + s + ")) (not " + inplace + "))")
	fresh := vc.allocRef(st, "app_arr")
	arr := vc.define("app_ref", "Int", "(ite "+inplace+" (s_arr "+s+") "+fresh+")")
	ncap := vc.fresh("app_cap", "Int")
	vc.assume("(and (>= " + ncap + " " + newLen + ") (=> " + inplace + " (= " + ncap + " (s_cap " + s + "))))")
	// frame: in-place append writes into the existing backing array
	top := fr.topFrame()
	if top.modCheck {
		goal := "(or (not " + inplace + ") " + vc.allowedWrite(top, hn, "(s_arr "+s+")") + ")"
		if k != 0 && top.frameAssumed {
			vc.assumeG(reach, goal)
		} else if k != 0 {
			n := top.count("frame")
			vc.oblige(top.oblName(fmt.Sprintf("frame#%d", n)), "frame", top.defProps(), reach, goal, "append may write into a backing array outside the modifies clause at "+posOf(fr, instr))
		}
	}
	h := vc.heap(st, hn)
	old := "(select " + h + " (s_arr " + s + "))"
	var contents string
	if k >= 0 && k <= 4 {
		contents = old
		for j := 0; j < k; j++ {
			contents = fmt.Sprintf("(store %s (+ (s_len %s) %d) %s)", contents, s, j, addAt(fmt.Sprint(j)))
		}
		nh := vc.define(hn, vc.heapSort[hn], "(store "+h+" "+arr+" "+contents+")")
		st.heaps[hn] = nh
	} else {
		// general case: new contents described by a quantified constraint
		na := vc.fresh("app_contents", "(Array Int "+es+")")
		vc.assume(fmt.Sprintf("(forall ((j Int)) (! (= (select %s j) (ite (and (<= (s_len %s) j) (< j %s)) %s (select %s j))) :pattern ((select %s j))))", na, s, newLen, addAt("(- j (s_len "+s+"))"), old, na))
		nh := vc.define(hn, vc.heapSort[hn], "(store "+h+" "+arr+" "+na+")")
		st.heaps[hn] = nh
	}
	return Val{T: common.Args[0].Type(), S: vc.define("appended", "Slice", "(mk_slice "+arr+" "+newLen+" "+ncap+")")}
}

// ---------------------------------------------------------------------------
// inlining
// ---------------------------------------------------------------------------

func (vc *VC) canInline(fr *Frame, callee *ssa.Function) bool {
	if vc.inlineDepth > 4 {
		return false
	}
	for f := fr; f != nil; f = f.parent {
		if f.fn == callee {
			return false
		}
	}
	spec := vc.P.specFor(vc.P.fnKeys[callee], "")
	if spec != nil && spec.Inline {
		return true
	}
	// automatic: small loop-free functions without defers
	if len(callee.Blocks) > 16 {
		return false
	}
	n := 0
	for _, b := range callee.Blocks {
		for _, s := range b.Succs {
			if s.Dominates(b) {
				return false
			}
		}
		for _, in := range b.Instrs {
			n++
			switch in.(type) {
			case *ssa.Defer, *ssa.Go, *ssa.Select:
				return false
			}
		}
	}
	return n <= 150
}

func (vc *VC) inlineCall(fr *Frame, st *State, reach string, callee *ssa.Function, args []Val, fnv *Val, instr ssa.Instruction) Val {
	vc.inlineDepth++
	defer func() { vc.inlineDepth-- }()
	vc.inlined[vc.P.fnKeys[callee]] = true
	nf := vc.newFrame(callee, nil, fr)
	nf.inlined = true
	nf.entry = fr.topFrame().entry
	for i, p := range callee.Params {
		if i < len(args) {
			nf.regs[p] = args[i]
		}
	}
	for i, fv := range callee.FreeVars {
		if fnv != nil && fnv.Clo != nil && fnv.CloFrame != nil && i < len(fnv.Clo.Bindings) {
			nf.regs[fv] = vc.operand(fnv.CloFrame, fnv.Clo.Bindings[i])
		} else if fnv != nil && fnv.S != "" {
			vc.useCloEnv(i)
			pt := fv.Type().(*types.Pointer)
			ref := fmt.Sprintf("(clo_env_%d %s)", i, fnv.S)
			nf.regs[fv] = Val{T: fv.Type(), S: ref, A: &Addr{Kind: aHeap, Ref: ref, BaseT: pt.Elem()}}
		}
	}
	vc.comment("inline " + vc.P.fnKeys[callee])
	vc.execBody(nf, st, reach)
	vc.comment("end inline " + vc.P.fnKeys[callee])
	if len(nf.retStates) == 0 {
		// callee never returns normally
		vc.assumeG(reach, "false")
		return vc.freshResults(st, callee.Signature.Results(), callee.Name())
	}
	var in []edgeIn
	for _, r := range nf.retStates {
		in = append(in, edgeIn{r.guard, r.st, nil})
	}
	var merged *State
	if len(in) == 1 {
		merged = in[0].st
	} else {
		merged, _ = vc.mergeEdges(nf, callee.Blocks[0], in)
	}
	// drop the callee's local cells
	for c := range merged.locals {
		if nf.cells[c.Alloc] == c {
			delete(merged.locals, c)
		}
	}
	*st = *merged
	nres := callee.Signature.Results().Len()
	if nres == 0 {
		return Val{}
	}
	pick := func(i int) Val {
		if len(nf.retStates) == 1 {
			return nf.retStates[0].vals[i]
		}
		t := callee.Signature.Results().At(i).Type()
		j := vc.fresh("ret_"+callee.Name(), vc.S.sortOf(t))
		for _, r := range nf.retStates {
			vc.assumeG(r.guard, "(= "+j+" "+vc.valTerm(r.vals[i])+")")
		}
		return Val{T: t, S: j}
	}
	if nres == 1 {
		return pick(0)
	}
	var tup []Val
	for i := 0; i < nres; i++ {
		tup = append(tup, pick(i))
	}
	return Val{T: callee.Signature.Results(), Tup: tup}
}

// ---------------------------------------------------------------------------
// which heaps may a call modify (for loop havoc)
// ---------------------------------------------------------------------------

func (vc *VC) callHeaps(fr *Frame, ci ssa.CallInstruction) (heaps []string, all bool) {
	common := ci.Common()
	if bi, ok := common.Value.(*ssa.Builtin); ok {
		switch bi.Name() {
		case "append":
			if sl, ok := under(common.Args[0].Type()).(*types.Slice); ok {
				return []string{vc.arrHeapName(sl.Elem())}, false
			}
		case "delete":
			if m, ok := under(common.Args[0].Type()).(*types.Map); ok {
				return []string{vc.mapHeapName(m)}, false
			}
		}
		return nil, false
	}
	var spec *FuncSpec
	var callee *ssa.Function
	if common.IsInvoke() {
		if ms := vc.P.methods[typeKey(common.Value.Type())+"."+common.Method.Name()]; ms != nil {
			spec = ms.Spec
		}
	} else {
		callee = common.StaticCallee()
		if callee == nil {
			callee = vc.staticFn(fr, common.Value, 0)
		}
		if callee != nil {
			key := vc.P.fnKeys[callee]
			variant := ""
			top := fr.topFrame()
			if top.spec != nil && top.spec.CallUses != nil {
				for k, v := range top.spec.CallUses {
					if strings.HasPrefix(k, shortKey(key)+"#") {
						variant = v
					}
				}
			}
			spec = vc.P.specFor(key, variant)
			if spec == nil {
				spec = vc.P.specFor(key, "")
			}
			if spec != nil && spec.Inline {
				spec = nil
			}
		} else {
			top := fr.topFrame()
			tcName := ""
			if nt, ok := types.Unalias(common.Value.Type()).(*types.Named); ok {
				tcName = shortPkg(nt.Obj().Pkg()) + "." + nt.Obj().Name()
			}
			if top.spec != nil {
				for _, v := range top.spec.DynCalls {
					tcName = v
				}
			}
			if tc := vc.P.typeCons[tcName]; tc != nil {
				spec = tc.Spec
			}
		}
	}
	if spec != nil {
		if spec.ModAll {
			return nil, true
		}
		hs := vc.specHeaps(spec, callee, common)
		return hs, false
	}
	if callee != nil && callee.Blocks != nil && vc.P.repoPkgs[pkgOf(callee)] && vc.canInline(fr, callee) {
		return vc.fnHeaps(fr, callee, 0)
	}
	return nil, true
}

// specHeaps: heap names touched by the modifies clause, by typing the clause against dummy values
func (vc *VC) specHeaps(spec *FuncSpec, callee *ssa.Function, common *ssa.CallCommon) (out []string) {
	saveLines, saveFresh, saveErr := len(vc.lines), vc.nfresh, len(vc.specErrors)
	defer func() {
		vc.lines = vc.lines[:saveLines]
		vc.lineTag = vc.lineTag[:saveLines]
		vc.nfresh = saveFresh
		vc.specErrors = vc.specErrors[:saveErr]
		if r := recover(); r != nil {
			if se, ok := r.(specErr); ok {
				vc.notes = append(vc.notes, "frame of a callee could not be typed ("+se.msg+"): all heaps are treated as modified")
				out = append(out, "*")
				return
			}
			panic(r)
		}
	}()
	names := map[string]Val{}
	dummy := func(t types.Type) Val {
		return Val{T: t, S: "dummy"}
	}
	if common.IsInvoke() {
		pn := spec.ParamNames
		if len(pn) > 0 {
			names[pn[0]] = dummy(common.Value.Type())
		}
		for i, a := range common.Args {
			if i+1 < len(pn) {
				names[pn[i+1]] = dummy(a.Type())
			}
		}
	} else if len(spec.ParamNames) > 0 {
		for i, a := range common.Args {
			if i < len(spec.ParamNames) {
				names[spec.ParamNames[i]] = dummy(a.Type())
			}
		}
	} else if callee != nil {
		for i, p := range callee.Params {
			if i < len(common.Args) {
				names[p.Name()] = dummy(common.Args[i].Type())
			}
		}
	}
	st := &State{locals: map[*Cell]string{}, heaps: map[string]string{}, ghosts: map[string]string{}, alloc: "0", epoch: -1}
	env := &Env{vc: vc, st: st, old: st, names: names, hash: map[string]Val{}, paramsFirst: true}
	if callee != nil && len(callee.FreeVars) > 0 {
		env.cloFn = callee
		d := dummy(callee.Type())
		env.cloVal = &d
	}
	for ai, pn := range spec.AliasParams {
		if ai < len(common.Args) {
			names[pn] = dummy(common.Args[ai].Type())
		}
	}
	for _, l := range spec.Lets {
		names[l.Name] = env.trVal(l.E)
	}
	for _, t := range vc.modTargets(env, spec) {
		if t.addr != nil && t.addr.Kind == aLocal {
			continue
		}
		out = append(out, t.heap)
	}
	return out
}

func (vc *VC) fnHeaps(fr *Frame, fn *ssa.Function, depth int) (heaps []string, all bool) {
	if depth > 4 {
		return nil, true
	}
	hset := map[string]bool{}
	for _, b := range fn.Blocks {
		for _, in := range b.Instrs {
			switch x := in.(type) {
			case *ssa.Store:
				cur := x.Addr
				done := false
				for !done {
					switch y := cur.(type) {
					case *ssa.FieldAddr:
						cur = y.X
					case *ssa.IndexAddr:
						if sl, ok := under(y.X.Type()).(*types.Slice); ok {
							hset[vc.arrHeapName(sl.Elem())] = true
							done = true
							cur = nil
						} else {
							cur = y.X
						}
					default:
						done = true
					}
				}
				if cur != nil {
					if pt, ok := under(cur.Type()).(*types.Pointer); ok {
						hset[vc.cellHeapName(pt.Elem())] = true
						if at, ok := under(pt.Elem()).(*types.Array); ok {
							hset[vc.arrHeapName(at.Elem())] = true
						}
					}
				}
			case *ssa.Alloc:
				et := x.Type().(*types.Pointer).Elem()
				hset[vc.cellHeapName(et)] = true
				if at, ok := under(et).(*types.Array); ok {
					hset[vc.arrHeapName(at.Elem())] = true
				}
			case *ssa.Slice:
				if pt, ok := under(x.X.Type()).(*types.Pointer); ok {
					if at, ok := under(pt.Elem()).(*types.Array); ok {
						hset[vc.arrHeapName(at.Elem())] = true
					}
				}
			case *ssa.MapUpdate:
				hset[vc.mapHeapName(under(x.Map.Type()).(*types.Map))] = true
			case *ssa.MakeMap:
				hset[vc.mapHeapName(under(x.Type()).(*types.Map))] = true
			case *ssa.MakeSlice:
				hset[vc.arrHeapName(under(x.Type()).(*types.Slice).Elem())] = true
			case *ssa.MakeInterface:
				if !isRefLike(x.X.Type()) {
					hset[vc.cellHeapName(x.X.Type())] = true
				}
			case ssa.CallInstruction:
				nf := &Frame{vc: vc, fn: fn, parent: fr, spec: nil}
				hs, a := vc.callHeaps(nf, x)
				if a {
					return nil, true
				}
				for _, h := range hs {
					hset[h] = true
				}
			}
		}
	}
	return sortedKeys(hset), false
}

// ---------------------------------------------------------------------------------------------
// interface method calls by closed-world dispatch over the implementations in the repository
// ---------------------------------------------------------------------------------------------

type implSpec struct {
	fn   *ssa.Function
	spec *FuncSpec
	recv types.Type // receiver type as stored in the interface (T or *T)
}

func (vc *VC) implsOf(iface types.Type, method string) []implSpec {
	it, ok := under(iface).(*types.Interface)
	if !ok {
		return nil
	}
	key := typeKey(iface) + "." + method
	if vc.P.implCache == nil {
		vc.P.implCache = map[string][]implSpec{}
	}
	if r, ok := vc.P.implCache[key]; ok {
		return r
	}
	var out []implSpec
	for tp := range vc.P.repoPkgs {
		if strings.HasSuffix(tp.Path(), "testutils") {
			continue
		}
		sc := tp.Scope()
		for _, name := range sc.Names() {
			tn, ok := sc.Lookup(name).(*types.TypeName)
			if !ok || tn.IsAlias() {
				continue
			}
			if _, isIface := tn.Type().Underlying().(*types.Interface); isIface {
				continue
			}
			for _, rt := range []types.Type{tn.Type(), types.NewPointer(tn.Type())} {
				if !types.Implements(rt, it) {
					continue
				}
				// whole-program refinement: only types that some instruction of the repository converts to an interface
				if !vc.P.madeIface()[typeKey(rt)] {
					continue
				}
				sel := vc.P.prog.MethodSets.MethodSet(rt).Lookup(tp, method)
				if sel == nil {
					sel = vc.P.prog.MethodSets.MethodSet(rt).Lookup(nil, method)
				}
				if sel == nil {
					continue
				}
				fn := vc.P.prog.MethodValue(sel)
				if fn == nil {
					continue
				}
				// a value-receiver method is also in the pointer's method set through a wrapper: take the declared one
				if fn.Synthetic != "" {
					if _, isPtr := rt.(*types.Pointer); isPtr {
						// *T holding a value-receiver method: use the underlying declared method
						if decl := vc.P.prog.FuncValue(sel.Obj().(*types.Func)); decl != nil {
							fn = decl
						}
					}
				}
				out = append(out, implSpec{fn: fn, spec: vc.P.specFor(vc.P.fnKeys[fn], ""), recv: rt})
			}
		}
	}
	sort.Slice(out, func(i, j int) bool { return typeKey(out[i].recv) < typeKey(out[j].recv) })
	vc.P.implCache[key] = out
	return out
}

func (vc *VC) applyDispatch(fr *Frame, st *State, reach string, impls []implSpec, recv Val, args []Val, instr ssa.Instruction, resT *types.Tuple, key string, ordinal int) Val {
	pre := st.clone()
	rv := vc.valTerm(recv)
	pos := posOf(fr, instr)
	type bound struct {
		im    implSpec
		guard string
		names map[string]Val
	}
	var bs []bound
	var guards []string
	anyAll := false
	for _, im := range impls {
		g := fmt.Sprintf("(= (i_typ %s) %d)", rv, vc.S.typeID(im.recv))
		guards = append(guards, g)
		if im.spec == nil || im.spec.Inline {
			anyAll = true
			vc.notes = append(vc.notes, fmt.Sprintf("%s: dynamic dispatch of %s may reach %s, which has no contract (havoc)", fr.key, key, vc.P.fnKeys[im.fn]))
			continue
		}
		vc.specsUsed[vc.P.fnKeys[im.fn]] = true
		names := map[string]Val{}
		// receiver as the method sees it
		var rcv Val
		declRecv := im.fn.Params[0].Type()
		if _, isPtr := under(im.recv).(*types.Pointer); isPtr {
			pv := Val{T: im.recv, S: "(i_val " + rv + ")"}
			if _, declPtr := under(declRecv).(*types.Pointer); declPtr {
				rcv = pv
			} else {
				rcv = vc.load(pre, pv, nil, "")
			}
		} else {
			hn := vc.cellHeapName(im.recv)
			rcv = Val{T: im.recv, S: "(select " + vc.heap(pre, hn) + " (i_val " + rv + "))"}
		}
		names[im.fn.Params[0].Name()] = rcv
		for i, p := range im.fn.Params[1:] {
			if i < len(args) {
				names[p.Name()] = args[i]
			}
		}
		if im.spec.ModAll {
			anyAll = true
		}
		// entry-state abbreviations of the implementation's contract
		{
			lenv := &Env{vc: vc, st: pre, old: pre, names: names, hash: map[string]Val{}, paramsFirst: true}
			for _, l := range im.spec.Lets {
				l := l
				func() {
					defer func() {
						if r := recover(); r != nil {
							if se, is := r.(specErr); is {
								vc.specErrors = append(vc.specErrors, fmt.Sprintf("%s: contract of %s: let %s: %s", fr.key, vc.P.fnKeys[im.fn], l.Name, se.msg))
								return
							}
							panic(r)
						}
					}()
					names[l.Name] = lenv.trVal(l.E)
				}()
			}
		}
		bs = append(bs, bound{im, g, names})
	}
	// closed world: the dynamic type is one of the repository's implementations
	vc.assumeG(reach, "(or "+strings.Join(guards, " ")+" false)")
	vc.trusted["closed-world dispatch of "+key+" over the implementations in the repository"] = true
	// requires
	for _, b := range bs {
		env := &Env{vc: vc, st: pre, old: pre, names: b.names, hash: map[string]Val{}, paramsFirst: true}
		for i, r := range b.im.spec.Requires {
			if r.Free {
				continue
			}
			r := r
			name := r.Name
			if name == "" {
				name = fmt.Sprint(i + 1)
			}
			g := vc.safeTr(fr, func() string { return env.trBool(r.E) }, r.Src)
			vc.oblige(fr.oblName(fmt.Sprintf("pre@%s#%d/%s", shortKey(vc.P.fnKeys[b.im.fn]), ordinal, name)), "pre", clauseProps(r.Props, fr.defProps()), "(and "+reach+" "+b.guard+")", g, "precondition of "+vc.P.fnKeys[b.im.fn]+" (dynamic dispatch) at "+pos+": "+r.Src)
		}
	}
	// modifies
	if anyAll {
		vc.frameCheckAll(fr, st, reach, instr)
		vc.havocForCall(fr, st, args, true)
	} else {
		for _, b := range bs {
			env := &Env{vc: vc, st: pre, old: pre, names: b.names, hash: map[string]Val{}, paramsFirst: true}
			var targets []modTarget
			func() {
				defer func() {
					if r := recover(); r != nil {
						if se, is := r.(specErr); is {
							vc.specErrors = append(vc.specErrors, fmt.Sprintf("%s: modifies of %s: %s", fr.key, vc.P.fnKeys[b.im.fn], se.msg))
							return
						}
						panic(r)
					}
				}()
				targets = vc.modTargets(env, b.im.spec)
			}()
			for _, t := range targets {
				switch {
				case t.whole:
					// the whole heap may change, but only if this implementation is the one called
					oldH := vc.heap(st, t.heap)
					newH := vc.havocHeap(st, t.heap)
					vc.setHeap(st, t.heap, "(ite "+b.guard+" "+newH+" "+oldH+")")
				case t.addr != nil && t.addr.Kind != aLocal:
					nv := vc.fresh("m_"+mangle(t.heap), vc.S.sortOf(vc.addrType(t.addr)))
					// the write only happens if this implementation is the one called
					old := vc.load(st, Val{A: t.addr, T: types.NewPointer(vc.addrType(t.addr))}, nil, "")
					vc.store(st, Val{A: t.addr, T: types.NewPointer(vc.addrType(t.addr))}, "(ite "+b.guard+" "+nv+" "+old.S+")")
				case t.addr == nil:
					h := vc.heap(st, t.heap)
					es := strings.TrimSuffix(strings.TrimPrefix(vc.heapSort[t.heap], "(Array Int "), ")")
					nv := vc.fresh("m_"+mangle(t.heap), es)
					vc.setHeap(st, t.heap, "(ite (and "+b.guard+" (not (= "+t.ref+" 0))) (store "+h+" "+t.ref+" "+nv+") "+h+")")
				}
			}
		}
		na := vc.fresh("alloc", "Int")
		vc.assume("(>= " + na + " " + st.alloc + ")")
		st.alloc = na
	}
	ghostSet := map[string]bool{}
	for _, b := range bs {
		for _, m := range b.im.spec.Modifies {
			if c, ok := m.(*Call); ok && c.Fun == "ghost" {
				for _, a := range c.Args {
					if id, ok := a.(*Ident); ok {
						ghostSet[id.Name] = true
					}
				}
			}
		}
	}
	for _, g := range sortedKeys(ghostSet) {
		if gv := vc.P.ghosts[g]; gv != nil && !gv.Const {
			oldG := vc.ghost(st, g)
			newG := vc.fresh("g_"+g, vc.S.tySort(vc.tyOfTypeExprL(gv.Type, true)))
			st.ghosts[g] = newG
			// an implementation that does not list the ghost variable leaves it unchanged
			for _, b := range bs {
				own := false
				for _, m := range b.im.spec.Modifies {
					if c, ok := m.(*Call); ok && c.Fun == "ghost" {
						for _, a := range c.Args {
							if id, ok := a.(*Ident); ok && id.Name == g {
								own = true
							}
						}
					}
				}
				if !own {
					vc.assumeG("(and "+reach+" "+b.guard+")", "(= "+newG+" "+oldG+")")
				}
			}
		}
	}
	res := vc.freshResults(st, resT, shortKey(key))
	for _, b := range bs {
		post := map[string]Val{}
		for k, v := range b.names {
			post[k] = v
		}
		rn := vc.resultNames(b.im.spec, b.im.fn, resT.Len())
		if resT.Len() == 1 && len(rn) >= 1 {
			post[rn[0]] = res
			post["result"] = res
		} else {
			for i := 0; i < resT.Len() && i < len(rn); i++ {
				post[rn[i]] = res.Tup[i]
			}
		}
		env2 := &Env{vc: vc, st: st, old: pre, names: post, hash: map[string]Val{}, paramsFirst: true}
		for _, c := range b.im.spec.Ensures {
			c := c
			g := vc.safeTr(fr, func() string { return env2.trBool(c.E) }, c.Src)
			vc.assumeNamed("(and "+reach+" "+b.guard+")", g)
		}
	}
	return res
}

// checkFuncArgs justifies the assumptions a callee contract makes about its function-typed parameters
// (bind p = F: the argument is that very function; funcparam p T: the argument's own contract refines T, or it
// is a parameter of the caller declared with the same type contract). What cannot be justified statically is a
// contract error of the caller: its obligations are then undecided.
func (vc *VC) checkFuncArgs(fr *Frame, spec *FuncSpec, callee *ssa.Function, common *ssa.CallCommon, key string) {
	if callee == nil || (len(spec.Bind) == 0 && len(spec.ParamCons) == 0) {
		return
	}
	top := fr.topFrame()
	argOf := func(pn string) ssa.Value {
		off := 0
		if callee.Signature.Recv() != nil && !common.IsInvoke() {
			off = 0 // receiver is Params[0] and Args[0]
		}
		for i, p := range callee.Params {
			if p.Name() == pn && i-off < len(common.Args) {
				return common.Args[i-off]
			}
		}
		return nil
	}
	paramOfCaller := func(v ssa.Value) string {
		switch x := v.(type) {
		case *ssa.Parameter:
			return x.Name()
		case *ssa.UnOp:
			if al, ok := x.X.(*ssa.Alloc); ok && x.Op == token.MUL {
				for _, p := range fr.fn.Params {
					if p.Name() == al.Comment && vc.singleStoreFn(fr, al, 0) == nil {
						return p.Name()
					}
				}
			}
		case *ssa.ChangeType:
			if p, ok := x.X.(*ssa.Parameter); ok {
				return p.Name()
			}
		}
		return ""
	}
	var pns []string
	for pn := range spec.Bind {
		pns = append(pns, pn)
	}
	for pn := range spec.ParamCons {
		if _, dup := spec.Bind[pn]; !dup {
			pns = append(pns, pn)
		}
	}
	sort.Strings(pns)
	for _, pn := range pns {
		arg := argOf(pn)
		if arg == nil {
			vc.specErrors = append(vc.specErrors, fmt.Sprintf("%s: contract of %s names an unknown parameter %s", fr.key, key, pn))
			continue
		}
		f := vc.staticFn(fr, arg, 0)
		if want, ok := spec.Bind[pn]; ok {
			if f == nil || vc.P.fnKeys[f] != want {
				got := "a value not known statically"
				if f != nil {
					got = vc.P.fnKeys[f]
				}
				vc.specErrors = append(vc.specErrors, fmt.Sprintf("%s: the contract of %s used at %s is specialised for %s = %s, but the argument is %s", fr.key, key, posOfCommon(fr, common), pn, want, got))
			}
			continue
		}
		want := spec.ParamCons[pn]
		if f != nil {
			ok := false
			for _, s := range vc.P.specs[vc.P.fnKeys[f]] {
				if s.Refines == want {
					ok = true
					// a closure with preconditions of its own is not a refinement a generic caller may rely on
					if tc := vc.P.typeCons[want]; tc != nil && len(s.Requires) > len(tc.Spec.Requires) {
						ok = false
						vc.specErrors = append(vc.specErrors, fmt.Sprintf("%s: %s has preconditions of its own, so the generic contract of %s (argument %s: %s) cannot be used; a contract specialised with 'bind' is needed", fr.key, vc.P.fnKeys[f], key, pn, want))
					}
				}
			}
			if !ok {
				vc.specErrors = append(vc.specErrors, fmt.Sprintf("%s: the contract of %s requires argument %s to refine %s, but %s carries no such contract", fr.key, key, pn, want, vc.P.fnKeys[f]))
			}
			continue
		}
		if q := paramOfCaller(arg); q != "" && fr == top && top.spec != nil && top.spec.ParamCons[q] == want {
			continue
		}
		vc.specErrors = append(vc.specErrors, fmt.Sprintf("%s: the contract of %s requires argument %s to refine %s; the argument is not a function known statically", fr.key, key, pn, want))
	}
}

// madeIface: the concrete types that occur as the operand of a MakeInterface instruction somewhere in the
// repository (the only way a value of that dynamic type can come into existence)
func (P *Prog) madeIface() map[string]bool {
	if P.madeIfaceSet != nil {
		return P.madeIfaceSet
	}
	P.madeIfaceSet = map[string]bool{}
	var visit func(fn *ssa.Function)
	seen := map[*ssa.Function]bool{}
	visit = func(fn *ssa.Function) {
		if fn == nil || seen[fn] {
			return
		}
		seen[fn] = true
		for _, b := range fn.Blocks {
			for _, in := range b.Instrs {
				if mi, ok := in.(*ssa.MakeInterface); ok {
					P.madeIfaceSet[typeKey(mi.X.Type())] = true
				}
			}
		}
		for _, an := range fn.AnonFuncs {
			visit(an)
		}
	}
	for _, fn := range P.repoFns {
		visit(fn)
	}
	return P.madeIfaceSet
}

// externRefFree reports whether a call to a library function can be treated as free of effects on the state the
// contracts describe: the callee is not one of the process-wide effectful functions and every argument is
// reference-free (numbers, strings, time values, structs / arrays of these, or a variadic slice of boxed values of these).
func externRefFree(callee *ssa.Function, common *ssa.CallCommon) bool {
	pk := pkgOf(callee)
	if pk == nil {
		return false
	}
	switch pk.Path() {
	case "os", "io", "io/ioutil", "bufio", "syscall", "os/exec", "os/signal", "runtime", "unsafe", "reflect", "encoding/csv", "sync", "sync/atomic", "net", "net/http":
		return false
	case "fmt":
		n := callee.Name()
		if strings.HasPrefix(n, "Print") || strings.HasPrefix(n, "Fprint") || strings.HasPrefix(n, "Scan") || strings.HasPrefix(n, "Fscan") || strings.HasPrefix(n, "Sscan") {
			return false
		}
	case "log":
		n := callee.Name()
		if strings.HasPrefix(n, "Fatal") || strings.HasPrefix(n, "Panic") || strings.HasPrefix(n, "Set") {
			return false
		}
	case "math/rand", "math/rand/v2", "crypto/rand":
		// not functions of their arguments: a report that consults them is no longer a function of its inputs (C05)
		return false
	case "time":
		switch callee.Name() {
		case "Now", "Since", "Until", "Sleep", "After", "Tick", "NewTimer", "NewTicker", "AfterFunc":
			return false
		}
	}
	if callee.Signature.Recv() != nil {
		// methods: the receiver is the first argument and is checked like the others
	}
	for _, a := range common.Args {
		if !refFreeValue(a, 0) {
			return false
		}
	}
	return true
}

func refFreeType(t types.Type, depth int) bool {
	if depth > 4 {
		return false
	}
	if n, ok := t.(*types.Named); ok && n.Obj().Pkg() != nil && n.Obj().Pkg().Path() == "time" {
		switch n.Obj().Name() {
		case "Time", "Duration", "Month", "Weekday":
			return true
		}
	}
	switch u := under(t).(type) {
	case *types.Basic:
		return u.Kind() != types.UnsafePointer
	case *types.Struct:
		for i := 0; i < u.NumFields(); i++ {
			if !refFreeType(u.Field(i).Type(), depth+1) {
				return false
			}
		}
		return true
	case *types.Array:
		return refFreeType(u.Elem(), depth+1)
	}
	return false
}

func refFreeValue(v ssa.Value, depth int) bool {
	if depth > 3 {
		return false
	}
	if refFreeType(v.Type(), 0) {
		return true
	}
	switch x := v.(type) {
	case *ssa.Const:
		return x.Value == nil // nil slice / nil interface
	case *ssa.MakeInterface:
		return refFreeType(x.X.Type(), 0)
	case *ssa.Slice:
		// the variadic argument: new [n]interface{} filled with boxed values, sliced once
		al, ok := x.X.(*ssa.Alloc)
		if !ok || x.Low != nil || x.High != nil {
			return false
		}
		for _, r := range *al.Referrers() {
			switch y := r.(type) {
			case *ssa.Slice:
				if y != x {
					return false
				}
			case *ssa.IndexAddr:
				for _, r2 := range *y.Referrers() {
					st, ok := r2.(*ssa.Store)
					if !ok || st.Addr != y || !refFreeValue(st.Val, depth+1) {
						return false
					}
				}
			default:
				return false
			}
		}
		return true
	}
	return false
}

func posOfCommon(fr *Frame, common *ssa.CallCommon) string {
	if in, ok := common.Value.(ssa.Instruction); ok {
		return posOf(fr, in)
	}
	p := fr.fn.Prog.Fset.Position(common.Pos())
	if !p.IsValid() {
		return ""
	}
	f := p.Filename
	if i := strings.LastIndex(f, "/"); i >= 0 {
		f = f[i+1:]
	}
	return fmt.Sprintf("%s:%d", f, p.Line)
}
