package main

import (
	"fmt"
	"go/types"
	"os"
	"regexp"
	"sort"
	"strings"

	"golang.org/x/tools/go/ssa"
)

// ---------------------------------------------------------------------------
// Values and addresses
// ---------------------------------------------------------------------------

type addrKind int

const (
	aLocal addrKind = iota
	aHeap
	aElem
)

type pathStep struct {
	Field int        // >=0: struct field index
	Idx   string     // Field<0: array index term
	T     types.Type // type of the container at this step
}

type Addr struct {
	Kind  addrKind
	Cell  *Cell
	Ref   string
	Idx   string
	BaseT types.Type
	Path  []pathStep
	Fresh bool
	IsMap bool
}

func (a *Addr) withStep(s pathStep) *Addr {
	b := *a
	b.Path = append(append([]pathStep{}, a.Path...), s)
	return &b
}

type Cell struct {
	Name  string
	T     types.Type
	ID    int
	Alloc *ssa.Alloc
}

type Val struct {
	T        types.Type
	S        string
	A        *Addr
	Tup      []Val
	Fn       *ssa.Function    // statically known function value
	Clo      *ssa.MakeClosure // closure creation (for bindings)
	CloFrame *Frame
	Ty       *Ty // logical type override
}

func (v Val) ty() Ty {
	if v.Ty != nil {
		return *v.Ty
	}
	return goTy(v.T)
}

// ---------------------------------------------------------------------------
// Symbolic state
// ---------------------------------------------------------------------------

type deferred struct {
	call *ssa.Defer
	args []Val
	fnv  Val
	fr   *Frame
}

type iterState struct {
	ord  string // Array Int K
	n    string
	pos  string // inverse function symbol K -> Int
	m    string // map ref
	dom0 string // dom at Range
	mt   *types.Map
	it   *Cell // iterator position cell
}

type State struct {
	locals map[*Cell]string
	heaps  map[string]string
	epoch  int
	alloc  string
	ghosts map[string]string
	defers []deferred
	// interior pointers (&x.f, &a[i]) held in local variables: the address is kept symbolically per cell
	addrs map[*Cell]*Addr
}

func (s *State) clone() *State {
	n := &State{locals: make(map[*Cell]string, len(s.locals)), heaps: make(map[string]string, len(s.heaps)), epoch: s.epoch, alloc: s.alloc, ghosts: make(map[string]string, len(s.ghosts))}
	for k, v := range s.locals {
		n.locals[k] = v
	}
	for k, v := range s.heaps {
		n.heaps[k] = v
	}
	for k, v := range s.ghosts {
		n.ghosts[k] = v
	}
	n.defers = append([]deferred{}, s.defers...)
	if len(s.addrs) > 0 {
		n.addrs = make(map[*Cell]*Addr, len(s.addrs))
		for k, v := range s.addrs {
			n.addrs[k] = v
		}
	}
	return n
}

func sameAddr(a, b *Addr) bool {
	if a == nil || b == nil {
		return a == b
	}
	if a.Kind != b.Kind || a.Ref != b.Ref || a.Idx != b.Idx || a.Cell != b.Cell || len(a.Path) != len(b.Path) {
		return false
	}
	for i := range a.Path {
		if a.Path[i].Field != b.Path[i].Field || a.Path[i].Idx != b.Path[i].Idx {
			return false
		}
	}
	return true
}

// ---------------------------------------------------------------------------
// Obligations
// ---------------------------------------------------------------------------

type Obligation struct {
	Name   string
	Func   string
	Kind   string
	Props  []string
	Prefix int
	Guard  string
	Goal   string
	Src    string
	Hints  []string // extra assumptions for this goal only
	Expect string   // "unsat" (default) or "sat" for smoke checks
	// results
	Status string // "discharged", "failed", "unknown", "timeout", "error"
	Solver string
	Time   float64
	Model  string
	Output string
	File   string
	vc     *VC
	Block  int
	Scope  int
	Extra  []int // additional scopes visible to this obligation
}

// ---------------------------------------------------------------------------
// Frame: one activation of a function being symbolically executed
// ---------------------------------------------------------------------------

type loopInfo struct {
	head      *ssa.BasicBlock
	ordinal   int
	blocks    map[*ssa.BasicBlock]bool
	backPreds []*ssa.BasicBlock
	spec      *LoopSpec
	// range loops
	rangeIdx  *ssa.Alloc // rangeindex cell of a range-over-slice loop
	idxCell   *ssa.Alloc // index variable of a hand-written loop 'for i ...; i < n; i++'
	rangeLen  ssa.Value
	rangeColl ssa.Value
	rng       *ssa.Range // range over map
	headState *State     // state at head entry (after havoc), for decreases and at(loop, e)
	preState  *State
	decTerm   string
}

type Frame struct {
	vc           *VC
	fn           *ssa.Function
	key          string
	spec         *FuncSpec
	regs         map[ssa.Value]Val
	cells        map[*ssa.Alloc]*Cell
	byName       map[string][]*Cell
	escaping     map[*ssa.Alloc]bool
	entry        *State
	names        map[string]Val // params (entry values), let-bound names
	results      []Val
	parent       *Frame
	inlined      bool
	loops        map[*ssa.BasicBlock]*loopInfo
	loopList     []*loopInfo
	counters     map[string]int
	iters        map[*ssa.Range]*iterState
	freeVals     map[*ssa.FreeVar]Val
	bind         map[string]*ssa.Function // specialisation: func-typed param name -> closure function
	bindVal      map[string]Val
	retStates    []retEdge
	curLoops     []*loopInfo
	callOrd      map[string]int
	dynOrd       int
	resultNames  []string
	modCheck     bool
	modTargets   []modTarget
	decEntry     string
	ordinal      map[ssa.Instruction]int
	frameAssumed bool   // frame obligations are assumed (proved by another contract of the same function)
	callLines    [2]int // lines holding the assumed postconditions of the most recent call
	pendingArgs  []Val
	lastRes      Val // result of the call an 'after' ghost block is attached to (#ret, #ret0, #ret1, ...)
	renamed      map[string]string // contract name -> current name (positional re-binding, rename.go)
	callPre      *State            // state just before the most recent call (at(call, e) in 'after call' ghost blocks)
}

type retEdge struct {
	guard string
	st    *State
	vals  []Val
}

// ---------------------------------------------------------------------------
// VC: verification condition builder for one unit (function / lemma)
// ---------------------------------------------------------------------------

type VC struct {
	P            *Prog
	S            *Sorts
	unit         string
	lines        []string
	obls         []*Obligation
	nfresh       int
	unsupported  []string
	trusted      map[string]bool
	heapSort     map[string]string
	heapElemType map[string]types.Type
	specDecls    []string
	specDeclared bool
	curPkg       *types.Package
	unitProps    []string
	inlineDepth  int
	notes        []string
	cellID       int
	quantFree    bool
	epochDecls   []string
	maxEpoch     int
	specErrors   []string
	hintCount    int
	lemmasUsed   map[string]bool
	specsUsed    map[string]bool
	unmodelled   map[string]bool
	inlined      map[string]bool
	pending      []pendingFact
	specUsed     map[string]bool
	axUsed       map[string]bool
	oblNames     map[string]int
	ssubSeen     map[string]bool
	smokes       []*Obligation
	named        map[string]string
	entryAlloc   string
	lineScope    []int // 0 = visible to every later obligation; n = only to obligations of ghost block n
	emitScope    int
	extraScopes  []int
	uniqScope    int
	curScope     int
	nextScope    int
	lineTag      []int // block index (top frame) in which each line was emitted; -1 = unconditional
	curBlock     int
	// model-driven replay (replaygen.go)
	fn         *ssa.Function
	spec       *FuncSpec
	topFr      *Frame
	replayMode bool
	replayStrs map[string]bool
	replayIDs  []int
	anc        map[int]map[int]bool // block -> set of ancestor blocks (incl. itself)
}

func newVC(P *Prog, unit string, cur *types.Package) *VC {
	vc := &VC{P: P, S: newSorts(), unit: unit, trusted: map[string]bool{}, heapSort: map[string]string{}, curPkg: cur, curBlock: -1}
	for _, s := range P.sortsDeclared {
		vc.S.decls = append(vc.S.decls, fmt.Sprintf("(declare-sort %s 0)", s))
		vc.S.ghostSorts[s] = true
	}
	return vc
}

func (vc *VC) emit(l string) {
	vc.lines = append(vc.lines, l)
	vc.lineTag = append(vc.lineTag, vc.curBlock)
	sc := vc.emitScope
	if !strings.HasPrefix(l, "(assert") {
		sc = 0
	}
	vc.lineScope = append(vc.lineScope, sc)
}

func (vc *VC) fresh(prefix, sort string) string {
	vc.nfresh++
	n := fmt.Sprintf("%s!%d", mangle(prefix), vc.nfresh)
	vc.emit(fmt.Sprintf("(declare-const %s %s)", n, sort))
	return n
}

func (vc *VC) assume(t string) {
	if t == "true" || t == "" {
		return
	}
	vc.emit("(assert " + t + ")")
}

func (vc *VC) assumeG(guard, t string) {
	if t == "true" || t == "" {
		return
	}
	if guard == "true" || guard == "" {
		vc.assume(t)
		return
	}
	vc.emit("(assert (=> " + guard + " " + t + "))")
}

// assumeNamed assumes a (callee) postcondition and gives each of its large quantified conjuncts a name, so that
// a later obligation asking for the very same formula (up to bound-variable numbering) is discharged by name
func (vc *VC) assumeNamed(guard, t string) {
	if t == "true" || t == "" {
		return
	}
	if len(t) <= 200 || !strings.Contains(t, "(forall") {
		vc.assumeG(guard, t)
		return
	}
	if vc.named == nil {
		vc.named = map[string]string{}
	}
	var rest []string
	for _, c := range splitAnd(t) {
		if len(c) > 200 && strings.Contains(c, "(forall") {
			norm := normFormula(c)
			p, ok := vc.named[norm]
			if !ok {
				p = vc.fresh("P", "Bool")
				vc.lineTag[len(vc.lineTag)-1] = -1
				vc.emit("(assert (=> " + p + " " + c + "))")
				vc.named[norm] = p
			}
			rest = append(rest, p)
			if guard == "" || guard == "true" {
				rest = append(rest, c)
			}
		} else {
			rest = append(rest, c)
		}
	}
	if len(rest) == 1 {
		vc.assumeG(guard, rest[0])
	} else {
		vc.assumeG(guard, "(and "+strings.Join(rest, " ")+")")
	}
}

func (vc *VC) comment(s string) {
	vc.emit("; " + strings.ReplaceAll(s, "\n", " "))
}

// smoke records a vacuity check: the assumptions up to this point (with the guard) must not be contradictory
func (vc *VC) smoke(name string, props []string, guard string) {
	o := &Obligation{Name: name, Func: vc.unit, Kind: "smoke", Props: props, Prefix: len(vc.lines), Guard: guard, Goal: "true", Src: "reachability (vacuity) check", vc: vc, Block: vc.curBlock, Expect: "sat"}
	vc.smokes = append(vc.smokes, o)
}

func (vc *VC) define(prefix, sort, term string) string {
	n := vc.fresh(prefix, sort)
	vc.emit(fmt.Sprintf("(assert (= %s %s))", n, term))
	return n
}

func (vc *VC) unsupportedf(format string, a ...any) {
	msg := fmt.Sprintf(format, a...)
	for _, u := range vc.unsupported {
		if u == msg {
			return
		}
	}
	vc.unsupported = append(vc.unsupported, msg)
}

// oblige records an obligation: under guard, goal must hold. Afterwards the goal is assumed.
func (vc *VC) oblige(name, kind string, props []string, guard, goal, src string) *Obligation {
	if vc.oblNames == nil {
		vc.oblNames = map[string]int{}
	}
	vc.oblNames[name]++
	if n := vc.oblNames[name]; n > 1 {
		name = fmt.Sprintf("%s@%d", name, n)
	}
	// Quantified conjuncts of the goal that were established earlier (same formula up to bound-variable
	// numbering) are offered to the solver by name; afterwards every such conjunct gets a name of its own.
	if vc.named == nil {
		vc.named = map[string]string{}
	}
	conj := splitAnd(goal)
	var parts []string
	for _, c := range conj {
		if len(c) > 200 && strings.Contains(c, "(forall") {
			if p, ok := vc.named[normFormula(c)]; ok {
				parts = append(parts, "(or "+p+" "+c+")")
				continue
			}
		}
		parts = append(parts, c)
	}
	qgoal := goal
	if len(parts) == 1 {
		qgoal = parts[0]
	} else if len(parts) > 1 {
		qgoal = "(and " + strings.Join(parts, " ") + ")"
	}
	o := &Obligation{Name: name, Func: vc.unit, Kind: kind, Props: props, Prefix: len(vc.lines), Guard: guard, Goal: qgoal, Src: src, vc: vc, Block: vc.curBlock, Scope: vc.curScope + 1, Extra: append([]int{}, vc.extraScopes...)}
	vc.obls = append(vc.obls, o)
	if vc.replayMode {
		return o
	}
	plain := true
	for _, c := range conj {
		if len(c) > 200 && strings.Contains(c, "(forall") {
			norm := normFormula(c)
			if _, ok := vc.named[norm]; !ok {
				p := vc.fresh("P", "Bool")
				// the declaration must be visible to every later query, not only to those that reach this block
				vc.lineTag[len(vc.lineTag)-1] = -1
				vc.emit("(assert (=> " + p + " " + c + "))")
				vc.named[norm] = p
			}
			vc.assumeG(guard, vc.named[norm])
			if guard == "" || guard == "true" {
				vc.assume(c)
			}
			plain = false
		}
	}
	if plain || len(conj) > 1 {
		vc.assumeG(guard, goal)
	}
	return o
}

func normFormula(s string) string {
	return qidRe.ReplaceAllString(bvarRe.ReplaceAllString(s, ""), "")
}

// splitAnd flattens the top-level conjunction of an s-expression
func splitAnd(s string) []string {
	s = strings.TrimSpace(s)
	if !strings.HasPrefix(s, "(and ") || !strings.HasSuffix(s, ")") {
		return []string{s}
	}
	body := s[5 : len(s)-1]
	var out []string
	depth, start := 0, -1
	for i := 0; i < len(body); i++ {
		ch := body[i]
		switch {
		case ch == '(':
			if depth == 0 && start < 0 {
				start = i
			}
			depth++
		case ch == ')':
			depth--
			if depth == 0 && start >= 0 {
				out = append(out, splitAnd(body[start:i+1])...)
				start = -1
			}
		case ch == ' ' || ch == '\n':
			if depth == 0 && start >= 0 {
				out = append(out, body[start:i])
				start = -1
			}
		default:
			if depth == 0 && start < 0 {
				start = i
			}
		}
	}
	if start >= 0 {
		out = append(out, body[start:])
	}
	return out
}

var qidRe = regexp.MustCompile(`:qid [^ )]+`)
var bvarRe = regexp.MustCompile(`![q][0-9]+`)

// ---------------------------------------------------------------------------
// heaps
// ---------------------------------------------------------------------------

func typeKey(t types.Type) string {
	return types.TypeString(types.Unalias(t), func(p *types.Package) string { return p.Name() })
}

// heap names:  H:<type>  cells holding a value of <type>;  A:<type> arrays of <type>;  M:<maptype> maps
func cellHeap(t types.Type) string { return "H:" + typeKey(t) }
func arrHeap(t types.Type) string  { return "A:" + typeKey(t) }
func mapHeap(t *types.Map) string {
	return "M:" + typeKey(t.Key()) + "=>" + typeKey(t.Elem())
}

func (vc *VC) declareHeap(name string, sortFn func() string) {
	if _, ok := vc.heapSort[name]; !ok {
		vc.heapSort[name] = sortFn()
	}
}

func (vc *VC) heapSortOf(name string) string {
	return vc.heapSort[name]
}

func (vc *VC) cellHeapName(t types.Type) string {
	n := cellHeap(t)
	vc.declareHeap(n, func() string { return "(Array Int " + vc.S.sortOf(t) + ")" })
	if vc.heapElemType == nil {
		vc.heapElemType = map[string]types.Type{}
	}
	vc.heapElemType[n] = t
	return n
}

func (vc *VC) arrHeapName(t types.Type) string {
	n := arrHeap(t)
	vc.declareHeap(n, func() string { return "(Array Int (Array Int " + vc.S.sortOf(t) + "))" })
	if vc.heapElemType == nil {
		vc.heapElemType = map[string]types.Type{}
	}
	vc.heapElemType[n] = t
	return n
}

func (vc *VC) mapHeapName(t *types.Map) string {
	n := mapHeap(t)
	vc.declareHeap(n, func() string { return "(Array Int " + vc.S.mapSortGo(t) + ")" })
	return n
}

// heap returns the current term of a heap in a state (creating the epoch version lazily)
func (vc *VC) heap(st *State, name string) string {
	if t, ok := st.heaps[name]; ok {
		return t
	}
	if name == "" || vc.heapSort[name] == "" {
		specFail("internal: heap %q has no sort (expression reads memory of a type the engine has not seen)", name)
	}
	n := fmt.Sprintf("%s@e%d", mangle(name), st.epoch)
	decl := fmt.Sprintf("(declare-const %s %s)", n, vc.heapSort[name])
	found := false
	for _, l := range vc.epochDecls {
		if l == decl {
			found = true
			break
		}
	}
	if !found {
		vc.epochDecls = append(vc.epochDecls, decl)
		if st.epoch == 0 && vc.entryAlloc != "" && os.Getenv("GOVC_NOALLOCAX") == "" {
			save := vc.curBlock
			vc.curBlock = -1
			vc.heapTypeAxiom(name, n, false, vc.entryAlloc)
			vc.curBlock = save
		} else {
			vc.heapTypeAxiom(name, n, true, "")
		}
	}
	st.heaps[name] = n
	return n
}

func (vc *VC) setHeap(st *State, name, term string) {
	n := vc.define(name, vc.heapSort[name], term)
	st.heaps[name] = n
}

func (vc *VC) havocHeap(st *State, name string) string {
	n := vc.fresh(name, vc.heapSort[name])
	st.heaps[name] = n
	vc.heapTypeAxiom(name, n, false, "")
	return n
}

// heapTypeAxiom: every value stored in a heap satisfies the invariants of its Go type
// (slice lengths are non-negative and bounded by the capacity)
func (vc *VC) heapTypeAxiom(name, term string, prelude bool, allocTerm string) {
	if strings.HasPrefix(name, "M:") {
		// the number of keys of a map is never negative
		ms := strings.TrimSuffix(strings.TrimPrefix(vc.heapSort[name], "(Array Int "), ")")
		ax := "(assert (forall ((r Int)) (! (>= (" + ms + "__card (select " + term + " r)) 0) :pattern ((select " + term + " r)))))"
		// every reference stored in an existing map of the entry state is allocated
		vt := name[strings.Index(name, "=>")+2:]
		if allocTerm != "" && (strings.HasPrefix(vt, "*") || strings.HasPrefix(vt, "map[") || strings.HasPrefix(vt, "chan ")) {
			if ks := vc.S.mapKeySort[ms]; ks != "" {
				ax += "\n(assert (forall ((r Int) (k " + ks + ")) (! (=> (and (< r " + allocTerm + ") (select (" + ms + "__dom (select " + term + " r)) k)) (< (select (" + ms + "__val (select " + term + " r)) k) " + allocTerm + ")) :pattern ((select (" + ms + "__val (select " + term + " r)) k)) :qid mapvalalloc)))"
			}
		}
		// the nil map (reference 0) is empty in every state: it is never written (a write panics)
		if ks := vc.S.mapKeySort[ms]; ks != "" && os.Getenv("GOVC_NONILMAP") == "" {
			ax += "\n(assert (= (" + ms + "__card (select " + term + " 0)) 0))"
			// a map with a positive number of keys has a key (witness function), one with none has an empty key set
			wd := "(declare-fun mapwit_" + ms + " (" + ms + ") " + ks + ")"
			dup := false
			for _, d := range vc.S.decls {
				if d == wd {
					dup = true
				}
			}
			if !dup {
				vc.S.decls = append(vc.S.decls, wd)
			}
			ax += "\n(assert (forall ((r Int)) (! (=> (> (" + ms + "__card (select " + term + " r)) 0) (select (" + ms + "__dom (select " + term + " r)) (mapwit_" + ms + " (select " + term + " r)))) :pattern ((" + ms + "__card (select " + term + " r))) :qid mapwit)))"
			ax += "\n(assert (forall ((r Int) (k " + ks + ")) (! (=> (select (" + ms + "__dom (select " + term + " r)) k) (> (" + ms + "__card (select " + term + " r)) 0)) :pattern ((select (" + ms + "__dom (select " + term + " r)) k)) :qid mapnonempty)))"
			ax += "\n(assert (forall ((k " + ks + ")) (! (not (select (" + ms + "__dom (select " + term + " 0)) k)) :pattern ((select (" + ms + "__dom (select " + term + " 0)) k)) :qid nilmap)))"
		}
		if prelude {
			vc.epochDecls = append(vc.epochDecls, ax)
		} else {
			vc.emit(ax)
		}
		return
	}
	t := vc.heapElemType[name]
	if t == nil {
		return
	}
	var sel string
	if strings.HasPrefix(name, "A:") {
		sel = "(select (select " + term + " r) i)"
	} else if strings.HasPrefix(name, "H:") {
		sel = "(select " + term + " r)"
	} else {
		return
	}
	st := &State{alloc: "0"}
	if allocTerm != "" {
		st.alloc = allocTerm
	}
	var fs []string
	for _, f := range vc.typeFacts(st, t, sel, 0) {
		if strings.Contains(f, "s_len") || strings.Contains(f, "s_cap") {
			if !strings.Contains(f, " 0)") || strings.Contains(f, "(<= 0 (s_len") {
				fs = append(fs, f)
			}
		} else if strings.Contains(f, "(= (i_typ ") {
			// a nil interface value has no payload
			fs = append(fs, f)
		} else if allocTerm != "" && strings.HasPrefix(f, "(< ") && strings.HasSuffix(f, " "+allocTerm+")") {
			// every reference stored in memory is allocated
			fs = append(fs, f)
		}
	}
	if len(fs) == 0 {
		return
	}
	var ax string
	body := "(and " + strings.Join(fs, " ") + ")"
	if allocTerm != "" {
		// only cells that exist: an object allocated later is described through the same heap term
		var gen, al []string
		for _, f := range fs {
			if strings.HasSuffix(f, " "+allocTerm+")") && strings.HasPrefix(f, "(< ") {
				al = append(al, f)
			} else {
				gen = append(gen, f)
			}
		}
		body = "(and " + strings.Join(append(gen, "(=> (< r "+allocTerm+") (and true "+strings.Join(al, " ")+"))"), " ") + ")"
	}
	if strings.HasPrefix(name, "A:") {
		ax = "(assert (forall ((r Int) (i Int)) (! " + body + " :pattern (" + sel + "))))"
	} else {
		ax = "(assert (forall ((r Int)) (! " + body + " :pattern (" + sel + "))))"
	}
	if prelude {
		vc.epochDecls = append(vc.epochDecls, ax)
	} else {
		vc.emit(ax)
	}
}

// havocAll forgets every heap
func (vc *VC) havocAll(st *State) {
	vc.maxEpoch++
	st.epoch = vc.maxEpoch
	st.heaps = map[string]string{}
	// ghost variables not yet read in this state get their name from the new epoch; the others are renewed
	for g := range st.ghosts {
		delete(st.ghosts, g)
	}
}

// havocHeaps forgets every heap but keeps ghost variables
func (vc *VC) havocHeaps(st *State) {
	for _, g := range vc.P.ghostOrder {
		if gv := vc.P.ghosts[g]; gv != nil && !gv.Const {
			vc.ghost(st, g)
		}
	}
	vc.maxEpoch++
	st.epoch = vc.maxEpoch
	st.heaps = map[string]string{}
}

func sortedKeys[V any](m map[string]V) []string {
	var ks []string
	for k := range m {
		ks = append(ks, k)
	}
	sort.Strings(ks)
	return ks
}
