// mutate: enumerates simple syntactic mutants of a Go file (go/ast). Used by selftest/mutsweep.py to look for
// changes that neither the repository's tests nor the checks notice.
//   mutate -file F -list            prints the number of mutation sites
//   mutate -file F -n K             prints the file with mutation site K applied, and a description on stderr
package main

import (
	"bytes"
	"flag"
	"fmt"
	"go/ast"
	"go/parser"
	"go/printer"
	"go/token"
	"os"
	"strconv"
)

var strs *bool

var swap = map[token.Token]token.Token{
	token.LSS: token.LEQ, token.LEQ: token.LSS, token.GTR: token.GEQ, token.GEQ: token.GTR,
	token.EQL: token.NEQ, token.NEQ: token.EQL, token.ADD: token.SUB, token.SUB: token.ADD,
	token.MUL: token.QUO, token.QUO: token.MUL, token.LAND: token.LOR, token.LOR: token.LAND,
}

func main() {
	file := flag.String("file", "", "go file")
	list := flag.Bool("list", false, "count sites")
	n := flag.Int("n", -1, "site to mutate")
	strs = flag.Bool("strings", false, "only string-literal sites")
	flag.Parse()
	fset := token.NewFileSet()
	f, err := parser.ParseFile(fset, *file, nil, parser.ParseComments)
	if err != nil {
		fmt.Fprintln(os.Stderr, err)
		os.Exit(2)
	}
	k := 0
	desc := ""
	hit := func(pos token.Pos, what string) bool {
		if *strs && (len(what) < 14 || what[:14] != "string literal") {
			return false
		}
		k++
		if k-1 == *n {
			desc = fmt.Sprintf("%s: %s", fset.Position(pos), what)
			return true
		}
		return false
	}
	var visitStmts func(list *[]ast.Stmt)
	visitStmts = func(list *[]ast.Stmt) {
		for i := 0; i < len(*list); i++ {
			st := (*list)[i]
			switch s := st.(type) {
			case *ast.ExprStmt:
				if hit(s.Pos(), "delete call statement") {
					*list = append((*list)[:i:i], (*list)[i+1:]...)
					return
				}
			case *ast.IncDecStmt:
				if hit(s.Pos(), "delete inc/dec") {
					*list = append((*list)[:i:i], (*list)[i+1:]...)
					return
				}
			case *ast.AssignStmt:
				if s.Tok != token.DEFINE {
					if hit(s.Pos(), "delete assignment") {
						*list = append((*list)[:i:i], (*list)[i+1:]...)
						return
					}
				}
			}
		}
	}
	ast.Inspect(f, func(nd ast.Node) bool {
		if desc != "" {
			return false
		}
		switch x := nd.(type) {
		case *ast.GenDecl:
			if x.Tok == token.IMPORT {
				return false
			}
		case *ast.BinaryExpr:
			if to, ok := swap[x.Op]; ok {
				if hit(x.OpPos, fmt.Sprintf("%s -> %s", x.Op, to)) {
					x.Op = to
				}
			}
		case *ast.BasicLit:
			if x.Kind == token.STRING && *strs && len(x.Value) > 2 && x.Value[0] == '"' {
				if hit(x.Pos(), "string literal "+x.Value+" altered") {
					x.Value = x.Value[:len(x.Value)-1] + "_\""
				}
			}
			if x.Kind == token.INT && !*strs {
				if v, err := strconv.Atoi(x.Value); err == nil {
					if hit(x.Pos(), fmt.Sprintf("%d -> %d", v, v+1)) {
						x.Value = strconv.Itoa(v + 1)
					}
				}
			}
		case *ast.Ident:
			if x.Name == "true" || x.Name == "false" {
				if hit(x.Pos(), x.Name+" flipped") {
					if x.Name == "true" {
						x.Name = "false"
					} else {
						x.Name = "true"
					}
				}
			}
		case *ast.IfStmt:
			if hit(x.Cond.Pos(), "negate if condition") {
				x.Cond = &ast.UnaryExpr{Op: token.NOT, X: &ast.ParenExpr{X: x.Cond}}
			}
		case *ast.ReturnStmt:
			if len(x.Results) > 0 {
				if id, ok := x.Results[len(x.Results)-1].(*ast.Ident); ok && (id.Name == "err" || id.Name == "cbError" || id.Name == "perr" || id.Name == "writeErr") {
					if hit(x.Pos(), "return nil instead of "+id.Name) {
						x.Results[len(x.Results)-1] = ast.NewIdent("nil")
					}
				}
			}
		case *ast.BlockStmt:
			visitStmts(&x.List)
		case *ast.CaseClause:
			visitStmts(&x.Body)
		}
		return desc == ""
	})
	if *list {
		fmt.Println(k)
		return
	}
	if desc == "" {
		fmt.Fprintln(os.Stderr, "no such site")
		os.Exit(3)
	}
	var buf bytes.Buffer
	printer.Fprint(&buf, fset, f)
	os.Stdout.Write(buf.Bytes())
	fmt.Fprintln(os.Stderr, desc)
}
