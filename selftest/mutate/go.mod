module mutate

go 1.21
