#!/usr/bin/env python3
"""mutsweep.py [--sample N] [--seed S] [--workers W] [--out FILE]

Mechanical mutation sweep (an addition to the sub-agent seeding): simple syntactic mutants of the repository's
non-test Go files (selftest/mutate: operator swaps, +1 on integer literals, negated conditions, deleted statements,
flipped booleans, `return nil` for `return err`). For every mutant that still COMPILES and PASSES the repository's own
tests, the whole contract suite is run (`govc dev -f @`); a mutant that also passes it is a SURVIVOR: either an
equivalent mutant (dead code, unused value) or code the contracts do not constrain. Survivors are listed with their
location for review. Scratch copies live under /tmp and are removed.
"""
import argparse, glob, json, os, random, shutil, subprocess, sys, tempfile
from concurrent.futures import ThreadPoolExecutor

ap = argparse.ArgumentParser()
ap.add_argument("--sample", type=int, default=200)
ap.add_argument("--seed", type=int, default=1)
ap.add_argument("--workers", type=int, default=2)
ap.add_argument("--out", default="/verif/seeded/MUTSWEEP.json")
ap.add_argument("--govc", default="/verif/bin/govc")
ap.add_argument("--strings", action="store_true", help="string-literal mutants only")
ap.add_argument("--skip", nargs="*", default=[], help="result files of earlier sweeps: their sites are not run again")
ap.add_argument("--only-survivors", nargs="*", default=[], help="result files of earlier sweeps: run again exactly the sites recorded there as SURVIVOR")
a = ap.parse_args()
ENV = dict(os.environ, GOFLAGS="", GOPROXY="off", GOSUMDB="off", GOTOOLCHAIN="local")
MUT = "/tmp/mutate"
if not os.path.exists(MUT):
    subprocess.run("cd /verif/selftest/mutate && GOFLAGS=-mod=mod GOPROXY=off GOSUMDB=off GOTOOLCHAIN=local go build -o /tmp/mutate .", shell=True, check=True)
files = [f for f in glob.glob("/repo/**/*.go", recursive=True) if not f.endswith("_test.go") and not f.endswith("verif_contracts.go") and "/docs/" not in f]
sites = []
for f in sorted(files):
    n = int(subprocess.run([MUT] + (["-strings"] if a.strings else []) + ["-file", f, "-list"], capture_output=True, text=True).stdout.strip() or 0)
    sites += [(f, k) for k in range(n)]
random.Random(a.seed).shuffle(sites)
if a.skip:
    seen = set()
    for f in a.skip:
        for r in json.load(open(f)):
            seen.add(r["site"])
    keep = []
    for (f, k) in sites:
        d = subprocess.run([MUT, "-file", f, "-n", str(k)], capture_output=True, text=True).stderr.strip().splitlines()[-1].replace("/repo/", "")
        if d not in seen:
            keep.append((f, k))
    sites = keep
if a.only_survivors:
    want = set()
    for f in a.only_survivors:
        for r in json.load(open(f)):
            if r["status"] == "SURVIVOR":
                want.add(r["site"])
    keep = []
    for (f, k) in sorted(sites):
        d = subprocess.run([MUT] + (["-strings"] if a.strings else []) + ["-file", f, "-n", str(k)], capture_output=True, text=True).stderr.strip().splitlines()[-1].replace("/repo/", "")
        if d in want:
            keep.append((f, k))
    sites = keep
sites = sites[: a.sample]
print(f"{len(files)} files, sampling {len(sites)} mutation sites", flush=True)


def run(job):
    f, k = job
    rel = os.path.relpath(f, "/repo")
    t = tempfile.mkdtemp(prefix="govc-mut-", dir="/tmp")
    try:
        subprocess.run(f"rsync -a --exclude .git /repo/ {t}/repo/", shell=True, check=True)
        r = subprocess.run([MUT] + (["-strings"] if a.strings else []) + ["-file", f, "-n", str(k)], capture_output=True, text=True)
        if r.returncode != 0:
            return None
        desc = r.stderr.strip().splitlines()[-1].replace("/repo/", "")
        open(f"{t}/repo/{rel}", "w").write(r.stdout)
        b = subprocess.run("go build ./... && cd cmd/hranoprovod-cli && go build ./...", shell=True, cwd=f"{t}/repo", env=ENV, capture_output=True, text=True)
        if b.returncode != 0:
            return {"site": desc, "status": "does-not-compile"}
        ts = subprocess.run("go test -vet=off -count=1 ./... >/dev/null 2>&1 && cd cmd/hranoprovod-cli && go test -vet=off -count=1 ./... >/dev/null 2>&1", shell=True, cwd=f"{t}/repo", env=ENV, timeout=600)
        if ts.returncode != 0:
            return {"site": desc, "status": "killed-by-tests"}
        v = subprocess.run([a.govc, "dev", "-repo", f"{t}/repo", "-dir", f"{t}/smt", "-f", "@", "-q", "-t", "10"], capture_output=True, text=True, timeout=3600)
        out = v.stdout + v.stderr
        probs = [l.strip() for l in out.splitlines() if l.startswith("   failed") or l.startswith("   timeout") or l.startswith("   unknown") or "ERROR" in l or "UNSUPP" in l or "error" in l[:12]]
        probs = [p for p in probs if "resolver.Resolve[exact]/post#exact" not in p]
        if probs:
            return {"site": desc, "status": "caught-by-checks", "first": probs[0][:160]}
        return {"site": desc, "status": "SURVIVOR"}
    except Exception as e:
        return {"site": f"{rel}#{k}", "status": "error", "err": str(e)[:200]}
    finally:
        shutil.rmtree(t, ignore_errors=True)


res = []
with ThreadPoolExecutor(max_workers=a.workers) as ex:
    for r in ex.map(run, sites):
        if r:
            res.append(r)
            print(r["status"], r["site"], r.get("first", ""), flush=True)
            json.dump(res, open(a.out, "w"), indent=1)
from collections import Counter
c = Counter(r["status"] for r in res)
print(dict(c))
