#!/usr/bin/env python3
"""seedproc.py <seed-dir> [<prop> ...]

Confirms a seeded property-breaking change and runs the checks on it.
  1. scratch copy of /repo's working tree (outside /repo and /verif), patch applied
  2. the repository's own tests must PASS with the patch
  3. the demonstration must FAIL with the patch and PASS without it
  4. the checks of the given properties (default: the seed's property) are run on the patched copy
Writes <seed-dir>/meta.json. The scratch copy is removed afterwards.
"""
import json, os, re, shutil, subprocess, sys, tempfile

ENV = dict(os.environ, GOFLAGS="", GOPROXY="off", GOSUMDB="off", GOTOOLCHAIN="local")


def sh(cmd, cwd=None, timeout=900):
    p = subprocess.run(cmd, shell=True, cwd=cwd, env=ENV, capture_output=True, text=True, timeout=timeout)
    return p.returncode, (p.stdout + p.stderr)


def copy_repo(dst):
    sh(f"rsync -a --exclude .git /repo/ {dst}/")


def run_tests(d):
    rc1, o1 = sh("go test -vet=off -count=1 ./...", cwd=d)
    rc2, o2 = sh("go test -vet=off -count=1 ./...", cwd=d + "/cmd/hranoprovod-cli")
    return rc1 == 0 and rc2 == 0, (o1 + o2)[-1500:]


def demo_dir(seed, prop):
    """directory (relative to the repo root) a demo_test.go belongs to"""
    notes = open(os.path.join(seed, "notes.txt")).read() if os.path.exists(os.path.join(seed, "notes.txt")) else ""
    src = open(os.path.join(seed, "demo_test.go")).read()
    m = re.search(r"cp\s+\S*demo_test\.go\s+(\S+)", notes)
    if m:
        path = m.group(1).rstrip(";")
        path = re.sub(r"^/tmp/wt-C\d+/?", "", path)
        path = re.sub(r"[^/]*_test\.go$", "", path)
        if not path.startswith("/"):
            return path.strip("/") or "."
    m = re.match(r"//\s*dir:\s*(\S+)", src)
    if m:
        return m.group(1).strip("/") or "."
    for line in src.splitlines()[:15]:
        m = re.search(r"((?:cmd/hranoprovod-cli/internal/|resolver|parser|filter)\S*)", line)
        if m and line.strip().startswith("//"):
            return m.group(1).rstrip("/.,;)")
    pkg = re.search(r"^package (\w+)", src, re.M).group(1).replace("_test", "")
    for cand in [pkg, "cmd/hranoprovod-cli/internal/" + pkg, "."]:
        if os.path.isdir("/repo/" + cand) and (cand != "." or pkg == "hranoprovod"):
            return cand
    return "."


def run_demo(seed, prop, d):
    if os.path.exists(os.path.join(seed, "demo_test.go")):
        rel = demo_dir(seed, prop)
        tgt = os.path.join(d, rel, "zz_seed_demo_test.go")
        shutil.copy(os.path.join(seed, "demo_test.go"), tgt)
        mod = d + "/cmd/hranoprovod-cli" if rel.startswith("cmd/hranoprovod-cli") else d
        pkg = "./" + os.path.relpath(os.path.join(d, rel), mod)
        rc, out = sh(f"go test -vet=off -count=1 -run 'Demo|Seeded|Seed|TestC[0-9][0-9]' {pkg}", cwd=mod)
        os.remove(tgt)
        return rc == 0, f"go test -run Demo {pkg} (demo_test.go in {rel})", out[-1200:]
    if os.path.exists(os.path.join(seed, "demo.sh")):
        rc, out = sh(f"bash {os.path.join(seed, 'demo.sh')} {d}", cwd=d)
        if "/tmp/wt-" in open(os.path.join(seed, "demo.sh")).read():
            # older demos have the worktree path baked in: run a rewritten copy
            txt = re.sub(r"/tmp/wt-C\d+", d, open(os.path.join(seed, "demo.sh")).read())
            tmp = os.path.join(d, ".demo.sh")
            open(tmp, "w").write(txt)
            rc, out = sh(f"bash {tmp} {d}", cwd=d)
            os.remove(tmp)
        return rc == 0, "demo.sh <scratch copy>", out[-1200:]
    return None, "no demonstration", ""


def main():
    seed = os.path.abspath(sys.argv[1])
    name = os.path.basename(seed)
    m = re.search(r"(C\d\d)", name)
    prop = m.group(1)
    props = sys.argv[2:] or [prop]
    work = tempfile.mkdtemp(prefix="govc-seed-", dir="/tmp")
    meta = {"id": name, "property": prop, "ran": []}
    try:
        base, pat = work + "/base", work + "/patched"
        os.makedirs(base); os.makedirs(pat)
        copy_repo(base); copy_repo(pat)
        rc, out = sh(f"git apply --whitespace=nowarn {seed}/patch.diff", cwd=pat)
        if rc != 0:
            rc, out = sh(f"patch -p1 --fuzz=3 --no-backup-if-mismatch < {seed}/patch.diff", cwd=pat)
        meta["patch_applies"] = rc == 0
        if rc != 0:
            meta["error"] = out[-800:]
            print(json.dumps(meta, indent=1)); return 3
        rc, out = sh("go build ./... && cd cmd/hranoprovod-cli && go build ./...", cwd=pat)
        meta["compiles"] = rc == 0
        ok, out = run_tests(pat)
        meta["tests_pass_with_patch"] = ok
        meta["ran"].append("go test -vet=off -count=1 ./... in both modules of the patched copy: " + ("ok" if ok else "FAIL"))
        okp, how, outp = run_demo(seed, prop, pat)
        okb, _, outb = run_demo(seed, prop, base)
        meta["demo"] = how
        meta["demo_fails_with_patch"] = (okp is False)
        meta["demo_passes_without_patch"] = (okb is True)
        meta["demo_output_with_patch"] = outp[-600:]
        if okb is not True:
            meta["demo_output_without_patch"] = outb[-600:]
        meta["ran"].append(f"{how}: with patch -> {'pass' if okp else 'FAIL'}, without -> {'pass' if okb else 'FAIL'}")
        res = {}
        for p in props:
            rc, out = sh(f"/verif/bin/govc check -prop {p} -tier quick -repo {pat} -verif /verif -out {work}/out", timeout=1800)
            viol = [re.sub(r"replay=\S+ ", "", l)[:200] for l in out.splitlines() if l.startswith("VIOLATION")]
            summ = [l for l in out.splitlines() if l.startswith("property=")]
            res[p] = {"exit": rc, "violations": viol[:8], "n_violations": len(viol), "summary": summ[-1] if summ else out[-300:]}
            meta["ran"].append(f"govc check -prop {p} -tier quick on the patched copy: exit {rc}, {len(viol)} violation lines")
        meta["checks"] = res
        meta["detected_by"] = [p for p in props if res[p]["exit"] == 1 and res[p]["n_violations"] > 0]
        nf = os.path.join(seed, "notes.txt")
        if os.path.exists(nf):
            t = open(nf).read()
            m2 = re.search(r"(?:Needs?|Needed to manifest|needed for)[^:]*:\s*(.+?)(?:\n[A-Z(]|\nCommands|\nConfirmed|\Z)", t, re.S)
            if m2:
                meta["needs_to_manifest"] = " ".join(m2.group(1).split())[:600]
        json.dump(meta, open(os.path.join(seed, "meta.json"), "w"), indent=1)
        print(f"{name}: applies={meta['patch_applies']} tests={meta['tests_pass_with_patch']} demo_fail_with={meta['demo_fails_with_patch']} demo_pass_without={meta['demo_passes_without_patch']} detected_by={meta['detected_by']}")
        for p in props:
            for v in res[p]["violations"][:3]:
                print("    ", v)
    finally:
        shutil.rmtree(work, ignore_errors=True)


if __name__ == "__main__":
    sys.exit(main() or 0)
