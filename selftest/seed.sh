#!/bin/sh
# usage: seed.sh <patch.diff> <prop> [<prop>...]
# applies a patch to a scratch copy of /repo (3-way against the current tree) and runs the checks of the given
# properties on it; prints the VIOLATION / summary lines. The copy and all outputs are removed afterwards.
patch="$1"; shift
d=$(mktemp -d /tmp/govc-seed-XXXXXX)
trap 'rm -rf "$d"' EXIT
rsync -a --exclude .git /repo/ "$d/repo/"
(cd "$d/repo" && git init -q . && git add -A >/dev/null 2>&1 && git -c user.email=x -c user.name=x commit -qm base >/dev/null 2>&1; git apply -3 "$patch" 2>&1 | grep -v "^Applied\|^Falling\|cleanly" ) || true
if (cd "$d/repo" && git diff --quiet HEAD 2>/dev/null && git diff --cached --quiet HEAD 2>/dev/null); then echo "seed.sh: patch did not apply"; exit 3; fi
(cd "$d/repo" && GOFLAGS= GOPROXY=off GOSUMDB=off GOTOOLCHAIN=local go build ./... && cd cmd/hranoprovod-cli && GOFLAGS= GOPROXY=off GOSUMDB=off GOTOOLCHAIN=local go build ./...) || { echo "seed.sh: patched tree does not compile"; exit 4; }
for p in "$@"; do
  ${GOVC:-/verif/bin/govc} check -prop "$p" -tier quick -repo "$d/repo" -verif /verif -out "$d/out" | grep -E "VIOLATION|KNOWN|property=" | sed "s#$d#<scratch>#g" | cut -c1-260
done
