#!/usr/bin/env python3
"""thorough_selftest.py <prop>

Thorough tier, second half: a must-fail self-test of the check of one property. Every seeded property-breaking
change stored under /verif/seeded whose meta.json says the check of <prop> catches it is applied to a scratch copy
of /repo's CURRENT working tree and the check is run on the copy; it must still report a violation. The outcome is
added to /verif/evidence/<prop>.json (coverage.selftest) and printed. A seed that is no longer caught means the check
has lost power - it is reported as SELFTEST-LOST (not as a violation of the property; the exit status is not changed).
The scratch copies live under /tmp and are removed.
"""
import glob, json, os, re, shutil, subprocess, sys, tempfile, time

prop = sys.argv[1]
V = os.path.dirname(os.path.dirname(os.path.abspath(__file__)))
repo = os.environ.get("VERIF_REPO", "/repo")
rows = []
t0 = time.time()
env = dict(os.environ, GOVC_NOREPLAY="1")  # the self-test only asks whether the change is still reported


def one(d):
    work = tempfile.mkdtemp(prefix="govc-selftest-", dir="/tmp")
    try:
        subprocess.run(["rsync", "-a", "--exclude", ".git", repo + "/", work + "/repo/"], check=True)
        r = subprocess.run(["git", "apply", "--whitespace=nowarn", os.path.join(d, "patch.diff")], cwd=work + "/repo", capture_output=True, text=True)
        if r.returncode != 0:
            r = subprocess.run("patch -p1 --fuzz=3 --no-backup-if-mismatch < " + os.path.join(d, "patch.diff"), shell=True, cwd=work + "/repo", capture_output=True, text=True)
        if r.returncode != 0:
            return {"seed": os.path.basename(d), "status": "patch-does-not-apply-to-this-tree"}
        r = subprocess.run([os.path.join(V, "bin", "govc"), "check", "-prop", prop, "-tier", "quick", "-repo", work + "/repo", "-verif", V, "-out", work + "/out"], capture_output=True, text=True, env=env)
        viol = [l for l in r.stdout.splitlines() if l.startswith("VIOLATION")]
        first = re.sub(r"replay=\S+ ", "", viol[0])[:160] if viol else ""
        return {"seed": os.path.basename(d), "status": "caught" if (r.returncode == 1 and viol) else "LOST", "violations": len(viol), "first": first}
    finally:
        shutil.rmtree(work, ignore_errors=True)


todo = []
for d in sorted(glob.glob(os.path.join(V, "seeded", "seeded*-C*"))):
    mf = os.path.join(d, "meta.json")
    if not os.path.exists(mf):
        continue
    m = json.load(open(mf))
    if prop in (m.get("detected_by") or []):
        todo.append(d)
from concurrent.futures import ThreadPoolExecutor
with ThreadPoolExecutor(max_workers=3) as ex:
    rows = list(ex.map(one, todo))
lost = [r for r in rows if r["status"] == "LOST"]
for r in rows:
    print(f"selftest {prop}: {r['seed']}: {r['status']}" + (f" ({r.get('violations')} violation lines; {r.get('first')})" if r["status"] == "caught" else ""))
for r in lost:
    print(f"SELFTEST-LOST property={prop} seed={r['seed']} (a seeded change this check used to catch is no longer reported)")
ef = os.path.join(V, "evidence", prop + ".json")
if os.path.exists(ef):
    ev = json.load(open(ef))
    ev.setdefault("coverage", {})["selftest"] = {"rule": "every stored seeded change that this check caught when it was confirmed is re-applied to a scratch copy of the current tree and must still be reported", "seeds": rows, "caught": len([r for r in rows if r["status"] == "caught"]), "lost": len(lost), "wall_s": round(time.time() - t0, 1)}
    json.dump(ev, open(ef, "w"), indent=1)
sys.exit(0)
