#!/bin/sh
# usage: mut.sh <file-relative-to-repo> <sed-expression> <govc dev args...>
# applies a sed edit to a scratch copy of /repo and runs govc dev on it; the copy is removed afterwards
set -e
f="$1"; expr="$2"; shift 2
d=$(mktemp -d /tmp/govc-mut-XXXXXX)
trap 'rm -rf "$d"' EXIT
rsync -a --exclude .git /repo/ "$d/repo/"
sed -i "$expr" "$d/repo/$f"
if cmp -s "$d/repo/$f" "/repo/$f"; then echo "mut.sh: edit did not change $f" >&2; exit 3; fi
(cd "$d/repo" && GOFLAGS= GOPROXY=off GOSUMDB=off GOTOOLCHAIN=local go build ./... ) || { echo "mutant does not compile"; exit 4; }
${GOVC:-/tmp/govc} dev -repo "$d/repo" "$@" || true
